"""C15 -- successful resolutions produce dependency-closed, slot-consistent plans (DESIGN.md section 4, C15)."""
import collections
import hashlib
import json
import random
from pyvc.api import Task, call, Interp
from pyvc.models import Model
from pyvc.sym import OutOfSubset

PROPERTY = "C15"
PLAN = "src/pkgcore/resolver/plan.py"
LEVEL = "other"
EXPLANATION = ("No contract within reach states 'the plan is dependency-closed' for the 1000-line backtracking search (DESIGN.md); what is "
               "discharged deductively is the narrow part: merge_plan.__init__ meets the precondition of every constructor it calls "
               "(in particular instance-cached restriction classes get hashable arguments) and wires the repositories as the planner "
               "expects.  The closure / slot / blocker / target part of the property is a bounded stand-in only: seeded universes are "
               "resolved by the real upgrade and minimal-install resolvers and every successful plan is checked.")

MANIFEST = {
    "text": "merge_plan.__init__ under contract: raises nothing for any mix of installed / source repositories, hands only hashable "
            "arguments to instance-cached restriction classes, wraps every repository in a caching_repo with the per-repository "
            "strategy, applies the global strategy to all of them, and builds the installed view from exactly the livefs repositories, "
            "each filtered by the planner state's vdb filter.  Bounded stand-in for the plans themselves: seeded universes (<= 4 "
            "packages x <= 3 versions, slots, run/build dependencies, any-of groups, version ranges, blockers, cycles, random installed "
            "sets, 1..2 targets) are resolved with the upgrade and minimal-install resolvers; every successful plan must contain a match "
            "for each target, satisfy every dependency clause of every merged package, hold one package per name and slot, and contain "
            "no package hit by a merged package's blocker; resolution must not raise.",
    "note": "Trusted: the oracle's reading of satisfaction (an atom is satisfied by a package of the final state it matches), FakePkg "
            "metadata; pyvc encoder.  Two classes of violations on the unchanged tree are listed as known findings (see known_findings.json).",
}
ASSUMPTIONS = ["restriction classes cache their instances by constructor arguments unless they opt out (snakeoil WeaklyCachedABC)"]


def t_init(ex):
    import pkgcore.resolver.plan as plan
    P = "C15.merge_plan.__init__"
    n_live, n_src = ex.choose(3), ex.choose(3)
    it = Interp(ex, label=P)

    class Repo:
        def __init__(self, name, livefs):
            self.name, self.livefs = name, livefs
    dbs = [Repo(f"src{i}", False) for i in range(n_src)] + [Repo(f"vdb{i}", True) for i in range(n_live)]

    class Cached:
        def __init__(self, db, strategy):
            self.db, self.strategy, self.livefs = db, strategy, db.livefs
    it.models[plan.misc.caching_repo] = lambda it_, db, strategy: Cached(db, strategy)
    it.models[plan.multiplex.tree] = lambda it_, *trees: ("multiplex", trees)
    it.models[plan.filtered.tree] = lambda it_, repo, restrict, *a: ("filtered", repo, restrict)
    real_mcr = plan.MutableContainmentRestriction
    made = {}

    def m_mcr(it_, blacklist):
        cached = getattr(real_mcr, "__instance_cache__", None) is not None
        try:
            hash(blacklist)
            hashable = True
        except TypeError:
            hashable = False
        ex.oblige(f"{P}.requires.instance_cached_restriction_gets_hashable_arguments[MutableContainmentRestriction]", (not cached) or hashable,
                  kind="callee-precondition", note="snakeoil WeaklyCachedABC raises TypeError for unhashable constructor arguments of a caching class")
        made["mcr"] = ("vdb-filter-restriction", blacklist)
        return made["mcr"]
    it.models[real_mcr] = m_mcr
    from pyvc.sym import SObj
    me = SObj(plan.merge_plan, {})
    strategy_calls = []
    gs = Model(lambda it_, raw: (strategy_calls.append(list(raw)), "ALL-DBS")[1], "global_strategy")
    out = call(it, it.target(PLAN, "merge_plan.__init__"), me, dbs, "PER-REPO", gs)
    ex.oblige(f"{P}.raises.nothing[{n_src} source, {n_live} installed]", not out.raised, kind="exceptional-postcondition")
    if out.raised:
        return
    f = me.fields
    raw = f.get("all_raw_dbs")
    ok_raw = isinstance(raw, list) and [c.db for c in raw] == dbs and all(c.strategy == "PER-REPO" for c in raw)
    ex.oblige(f"{P}.ensures.every_repository_is_cached_with_the_per_repository_strategy_in_order", ok_raw)
    ex.oblige(f"{P}.ensures.global_strategy_sees_all_repositories", strategy_calls == [raw] and f.get("all_dbs") == "ALL-DBS" and f.get("default_dbs") == "ALL-DBS")
    st = f.get("state")
    want_live = tuple(("filtered", c, made.get("mcr")) for c in (raw or []) if c.livefs)
    ex.oblige(f"{P}.ensures.installed_view_is_the_livefs_repositories_filtered_by_the_plan_state", f.get("livefs_dbs") == ("multiplex", want_live)
              and made.get("mcr") is not None and made["mcr"][1] is getattr(st, "vdb_filter", None))
    ex.oblige(f"{P}.ensures.starts_with_nothing_insoluble", _is_empty_set(f.get("insoluble")))


def _is_empty_set(v):
    from pyvc.sym import MutSet
    return (isinstance(v, MutSet) and v.val is None) or v == set()


# ------------------------------------------------------------------ bounded stand-in ----
ALL = ("rdepend", "depend", "pdepend", "bdepend", "idepend")
QUICK_SEEDS = (21, 22, 23)
THOROUGH_SEEDS = tuple(range(21, 33))


def _atoms_in(ds):
    from snakeoil.sequences import iflatten_instance
    from pkgcore.ebuild.atom import atom
    return [x for x in iflatten_instance(ds.restrictions, atom) if not x.blocks]


def _ok_node(n, fin):
    from pkgcore.restrictions import boolean
    from pkgcore.ebuild.atom import atom
    if isinstance(n, atom):
        return n.blocks or any(n.match(q) for q in fin)
    if isinstance(n, boolean.OrRestriction):
        return any(_ok_node(c, fin) for c in n.restrictions)
    return all(_ok_node(c, fin) for c in n.restrictions)


def _unsat_atoms(ds, fin):
    from pkgcore.restrictions import boolean
    from pkgcore.ebuild.atom import atom
    out = []

    def walk(n):
        if isinstance(n, atom):
            if not n.blocks and not any(n.match(q) for q in fin):
                out.append(n)
        elif isinstance(n, boolean.OrRestriction):
            if not any(_ok_node(c, fin) for c in n.restrictions):
                for c in n.restrictions:
                    walk(c)
        else:
            for c in n.restrictions:
                walk(c)
    for n in ds.restrictions:
        walk(n)
    return out


def _reaches(src, dst, fin):
    seen, todo = {src.cpvstr}, [src]
    while todo:
        x = todo.pop()
        for a in ALL:
            for q in fin:
                if q.cpvstr not in seen and any(at.match(q) for at in _atoms_in(getattr(x, a))):
                    if q is dst:
                        return True
                    seen.add(q.cpvstr)
                    todo.append(q)
    return False


def classify(p, ds, fin, vdb, ops):
    """which listed class (if any) an unsatisfied dependency of merged package p belongs to"""
    ua = _unsat_atoms(ds, fin)
    if not ua:
        return None
    replaced_old = [o[2] for o in ops if o[0] == "replace" and o[2]]
    if all(any(at.match(q) and q.cpvstr in replaced_old for q in vdb) for at in ua):
        return "satisfied_by_installed_package_the_plan_then_replaces"
    if all(any(q.key == at.key and (q is p or _reaches(q, p, fin)) for q in fin) for at in ua):
        return "cycle_back_onto_a_planned_package_of_another_version"
    return None


def _digest(*parts):
    return hashlib.sha256(json.dumps(parts, sort_keys=True).encode()).hexdigest()[:12]


# inputs found while exploring outside the fixed seeds; kept so that the listed findings they exhibit are exercised on every run
EXTRA = [
    ({"a": {"p": {"2": {"RDEPEND": "a/q", "SLOT": "2"}, "3": {"RDEPEND": "<a/r-2", "SLOT": "3"}},
            "q": {"1": {"RDEPEND": "", "DEPEND": ">=a/r-2", "SLOT": "1"}, "2": {"RDEPEND": "a/p", "SLOT": "2"}, "3": {"RDEPEND": "a/s", "DEPEND": "=a/r-1"}},
            "r": {"1": {"RDEPEND": "<a/p-2"}, "2": {"RDEPEND": "=a/q-1"}, "3": {"RDEPEND": "a/p"}}}}, {}, ["a/q", "a/r"], "upgrade"),
    ({"a": {"p": {"1": {"RDEPEND": "a/r a/r"}, "2": {"RDEPEND": "|| ( a/s a/q )", "SLOT": "2"}, "3": {"RDEPEND": ">=a/r-2", "SLOT": "3"}},
            "q": {"1": {"RDEPEND": ""}, "3": {"RDEPEND": ""}}, "r": {"3": {"RDEPEND": "=a/q-1", "DEPEND": "|| ( a/q a/q )"}},
            "s": {"1": {"RDEPEND": ""}, "2": {"RDEPEND": "|| ( a/r a/p )"}, "3": {"RDEPEND": "a/p a/r", "SLOT": "3"}}}}, {}, ["a/s", "a/q"], "upgrade"),
]


def _shared_blocker_family():
    """an equal blocker held by two packages (or twice by one), the later holder backed out of, then something that the blocker
    matches becomes attractive: the first holder's blocker must still be in force"""
    out = []
    for cls2 in ("DEPEND", "RDEPEND", "DEPEND+RDEPEND"):
        for first in ("RDEPEND", "DEPEND"):
            second = {"RDEPEND": "a/missing"}
            for c in cls2.split("+"):
                second[c] = (second.get(c, "") + " !a/x").strip()
            src = {"a": {"b": {"1": {first: "!a/x"}}, "a": {"1": {}, "2": second}, "c": {"1": {"RDEPEND": "|| ( a/x a/y )"}}, "x": {"1": {}}, "y": {"1": {}}}}
            for targets in (["a/b", "a/a", "a/c"], ["a/a", "a/b", "a/c"]):
                for kind in ("upgrade", "min_install"):
                    out.append((src, {}, targets, kind))
    return out


def _twin_family():
    """the installed copy and the repository copy of one version (equal as packages, different objects) with different dependencies: an
    any-of alternative of the first candidate fails, a clause of another dependency class empties with it, and the choice point moves on
    to the twin -- whose own clauses must all be resolved"""
    out = []
    for inst_first, inst_second in (("RDEPEND", "PDEPEND"), ("DEPEND", "RDEPEND"), ("RDEPEND", "DEPEND"), ("BDEPEND", "RDEPEND")):
        for src_cls in ("RDEPEND", "DEPEND", "BDEPEND"):
            src = {"a": {"a": {"1": {src_cls: "a/z"}}, "y": {"1": {}}, "z": {"1": {}}}}
            inst = {"a": {"a": {"1": {inst_first: "|| ( a/x a/y )", inst_second: "a/x"}}}}
            for kind in ("upgrade", "min_install"):
                out.append((src, inst, ["a/a"], kind))
            # the same with two versions in the repository, the twin being the older one
            src2 = {"a": {"a": {"1": {src_cls: "a/z"}, "2": {"RDEPEND": "a/missing"}}, "y": {"1": {}}, "z": {"1": {}}}}
            out.append((src2, inst, ["a/a"], "upgrade"))
    return out


def _install_time_family():
    """install-time dependencies (IDEPEND) of a merged package are clauses like any other; also next to post-merge ones, inside an any-of whose
    first alternative is missing, and on a version reached after the first candidate was given up"""
    out = []
    for dep in ("a/i", "|| ( a/missing a/i )", ">=a/i-1"):
        for other in ({}, {"PDEPEND": "a/y"}, {"RDEPEND": "a/y"}):
            src = {"a": {"a": {"1": dict({"IDEPEND": dep}, **other)}, "i": {"1": {}}, "y": {"1": {}}}}
            for kind in ("upgrade", "min_install"):
                out.append((src, {}, ["a/a"], kind))
    src = {"a": {"a": {"2": {"RDEPEND": "a/missing"}, "1": {"IDEPEND": "|| ( a/missing a/i )", "RDEPEND": "a/y"}}, "i": {"1": {}}, "y": {"1": {}}}}
    out.append((src, {}, ["a/a"], "upgrade"))
    return out


EXTRA += _shared_blocker_family()
EXTRA += _twin_family()
EXTRA += _install_time_family()
RECURSION_INPUTS = {"3206975074a0", "ddfdb71f8778"}
BLOCKER_INPUTS = {"8624bce3c444", "c49c27792a00"}


def enum_plans(seed):
    import os
    from contracts import resolver_harness as H
    from pkgcore.ebuild.atom import atom
    thorough = os.environ.get("VERIF_TIER") == "thorough"
    fails, known, cases, ok_plans = [], {}, 0, 0
    per = 200

    def add(model, detail, cls=None):
        if cls:
            if cls not in known:
                known[cls] = {"model": dict(model, **{cls: True}), "detail": detail}
        elif len(fails) < 12:
            fails.append({"model": dict(model), "detail": detail})
    def inputs():
        for e in EXTRA:
            yield e
        for s in (THOROUGH_SEEDS if thorough else QUICK_SEEDS):
            rnd = random.Random(s)
            for _ in range(per):
                src_d, inst_d = H.random_universe(rnd, blockers=True, slots=True)
                names = sorted(src_d["a"])
                targets = [f"a/{n}" for n in rnd.sample(names, rnd.choice((1, 1, 2)))]
                for kind in ("upgrade", "min_install"):
                    yield src_d, inst_d, targets, kind
    for src_d, inst_d, targets, kind in inputs():
        if True:
            if True:
                cases += 1
                model = {"digest": _digest(src_d, inst_d, targets, kind), "source": src_d, "installed": inst_d, "targets": targets, "strategy": kind}
                try:
                    r, src, vdb, failures, ops = H.resolve(kind, src_d, inst_d, targets)
                except Exception as e:
                    add(dict(model, raised=type(e).__name__, kind="raise"), f"building the resolver or resolving {targets} ({kind}) raised {type(e).__name__}: {e}; source {src_d} installed {inst_d}")
                    continue
                if failures:
                    continue
                ok_plans += 1
                model["ops"] = ops
                fin = H.final_state(vdb, r)
                names_fin = [q.cpvstr for q in fin]
                merged = [op.pkg for op in r.state.iter_ops() if op.desc in ("add", "replace")]
                for t in targets:
                    if not any(atom(t).match(p) for p in fin):
                        add(dict(model, kind="target"), f"{kind} of {targets} succeeded but nothing in the final state {names_fin} matches target {t}; plan {ops}")
                for p in merged:
                    for a in ALL:
                        ds = getattr(p, a)
                        if not H.dep_ok_nonblock(ds, fin):
                            cls = classify(p, ds, fin, list(vdb), ops)
                            add(dict(model, kind="unsatisfied"), f"{kind} of {targets} succeeded with plan {ops}, but {a.upper()} '{ds}' of merged {p.cpvstr} has a clause no package of the final state {names_fin} satisfies; "
                                       f"source {src_d} installed {inst_d}", cls)
                        for b in H.blockers_of(ds):
                            hit = [q.cpvstr for q in fin if q is not p and b.match(q)]
                            if hit:
                                add(dict(model, kind="blocker"), f"{kind} of {targets} succeeded with plan {ops}, but blocker {b} of merged {p.cpvstr} matches {hit} in the final state; source {src_d} installed {inst_d}")
                slots = collections.Counter((q.key, q.slot) for q in fin)
                dup = [k for k, v in slots.items() if v > 1]
                if dup:
                    add(dict(model, kind="slot"), f"{kind} of {targets} succeeded with plan {ops}, but the final state {names_fin} holds more than one package for {dup}")
    return {"name": "C15.plans.bounded_enumeration",
            "bound": f"{per} seeded universes for each fixed seed {THOROUGH_SEEDS if thorough else QUICK_SEEDS} (<= 4 packages x <= 3 versions, slots, blockers, build and run dependencies, any-of groups, ranges, "
                     f"random installed sets, 1..2 targets) x upgrade / minimal-install; {ok_plans} successful plans checked for targets, dependency closure, slot uniqueness and blockers",
            "cases": cases, "failures": fails + list(known.values())}


def tasks():
    return [
        Task("C15.merge_plan.__init__", t_init, [(PLAN, "merge_plan.__init__")]),
        Task("C15.plans", None, [(PLAN, "merge_plan.add_atom"), (PLAN, "merge_plan._rec_add_atom"), (PLAN, "merge_plan.check_for_cycles")], enumerate=enum_plans),
    ]


REPLAY = {}
WITNESSES = {
    "recursion_error_on_listed_input": lambda m: m.get("raised") == "RecursionError" and m.get("digest") in RECURSION_INPUTS,
    "blocker_on_listed_input": lambda m: m.get("kind") == "blocker" and m.get("digest") in BLOCKER_INPUTS,
    "satisfied_by_installed_package_the_plan_then_replaces": lambda m: bool(m.get("satisfied_by_installed_package_the_plan_then_replaces")),
    "cycle_back_onto_a_planned_package_of_another_version": lambda m: bool(m.get("cycle_back_onto_a_planned_package_of_another_version")),
}
