"""Ghost operating-system model for the fs.ops contracts (C18, C19, C20): every modelled os call appends an effect to a trace;
queries (lstat through gen_obj, os.path.exists) are answered from a small explicit description of the relevant pre-state."""
import errno
import os
from pyvc.models import Model, ModelHost
from pyvc.interp import PyRaise
from pyvc.sym import SObj, SInt, KInt, OutOfSubset


class Trace:
    def __init__(self):
        self.effects = []          # (op, path, extra...)

    def add(self, op, *a):
        from pyvc import theory
        ex = theory.CURRENT
        if ex is not None and ex.guards:   # an effect inside a merged `if`: explore the branches separately
            from pyvc.explore import NeedFork
            raise NeedFork("os effect inside a merged if")
        self.effects.append((op,) + tuple(a))

    def paths(self):
        out = []
        for e in self.effects:
            out.append(e[1])
            if e[0] in ("rename", "link"):
                out.append(e[2])
        return out


def os_error(code):
    e = OSError(code, os.strerror(code))
    if code == errno.EEXIST:
        e = FileExistsError(code, os.strerror(code))
    if code == errno.ENOENT:
        e = FileNotFoundError(code, os.strerror(code))
    return PyRaise(e)


def fs_obj(kind, location, ex, tag="obj", attrs=("mode", "uid", "gid", "mtime"), present=None):
    """an fs entry of the real class with symbolic attributes; `present` maps attr -> bool (given or None)"""
    from pkgcore.fs import fs
    cls = {"file": fs.fsFile, "dir": fs.fsDir, "sym": fs.fsSymlink, "fifo": fs.fsFifo, "dev": fs.fsDev}[kind]
    fields = {"location": location}
    for a in attrs:
        if present is None or present.get(a, True):
            v = KInt.fresh(f"{tag}_{a}")
            ex.assume(v >= 0)
            fields[a] = v
        else:
            fields[a] = None
    if kind == "sym":
        fields["target"] = "the-target"
    if kind == "dev":
        fields["major"], fields["minor"] = 8, 1
    if kind == "file":
        fields["data"] = DataSource(location)
        fields.setdefault("dev", None)
        fields.setdefault("inode", None)
    return SObj(cls, fields)


class DataSource(ModelHost):
    def __init__(self, origin):
        self.origin = origin
        self.trace = None

    def getattr(self, it, name):
        if name == "transfer_to_path":
            def f(it_, path):
                self.trace.add("write_file", path, self.origin)
            return Model(f, "data.transfer_to_path")
        raise OutOfSubset(name)


def install(it, ex, trace, existing=None, parent_exists=True, faults=None):
    """wire the os-level functions fs.ops uses to the trace.
    existing: None (nothing at the location) or an fs object describing what lstat finds at any queried path
    faults: dict op -> errno to raise on the first call of that op (after recording nothing)"""
    import pkgcore.fs.ops as ops
    from pkgcore.fs import fs
    faults = dict(faults or {})

    def eff(op, n=1):
        def f(it_, *a, **k):
            if op in faults:
                code = faults.pop(op)
                raise os_error(code)
            trace.add(op, *a)
        return f
    for op in ("lchown", "chmod", "utime", "mkdir", "symlink", "mkfifo", "mknod", "rename", "link", "unlink", "rmdir"):
        it.models[getattr(os, op)] = eff(op)
    # symlink(target, path): record path first
    def m_symlink(it_, target, path):
        if "symlink" in faults:
            raise os_error(faults.pop("symlink"))
        trace.add("symlink", path, target)
    it.models[os.symlink] = m_symlink
    def m_link(it_, src, dst):
        if "link" in faults:
            raise os_error(faults.pop("link"))
        trace.add("link", dst, src)
    it.models[os.link] = m_link
    def m_rename(it_, src, dst):
        if "rename" in faults:
            raise os_error(faults.pop("rename"))
        trace.add("rename", src, dst)
    it.models[os.rename] = m_rename
    def m_utime(it_, path, times=None, **k):
        # utime on a path follows a symbolic link unless told not to: the two are different effects
        op = "lutime" if k.get("follow_symlinks") is False else "utime"
        if op in faults:
            raise os_error(faults.pop(op))
        trace.add(op, path, times)
    it.models[os.utime] = m_utime
    it.models[os.makedev] = lambda it_, a, b: ("dev", a, b)
    it.models[ops.unlink_if_exists] = lambda it_, path: trace.add("unlink_if_exists", path)
    it.models[ops.ensure_dirs] = lambda it_, path, **k: (trace.add("ensure_dirs", path, tuple(sorted(k.items()))), True)[1]
    it.models[ops.spawn] = lambda it_, args: (trace.add("spawn", args[-1], tuple(args)), 0)[1]
    it.models[os.path.exists] = lambda it_, p: parent_exists

    def m_gen_obj(it_, path, **k):
        if existing is None:
            raise os_error(errno.ENOENT)
        return existing
    it.models[ops.gen_obj] = m_gen_obj
    for name, cls in (("isdir", fs.fsDir), ("isreg", fs.fsFile), ("issym", fs.fsSymlink), ("isfifo", fs.fsFifo), ("isdev", fs.fsDev)):
        it.models[getattr(fs, name)] = lambda it_, o, _c=cls: isinstance(o, SObj) and issubclass(o.cls, _c)
    it.models[fs.isfs_obj] = lambda it_, o: isinstance(o, SObj) and issubclass(o.cls, fs.fsBase)

    def change_attributes(it_, self_, **kw):
        f = dict(self_.fields)
        f.update(kw)
        return SObj(self_.cls, f)
    it.models[fs.fsBase.change_attributes] = change_attributes
    it.models[fs.fsFile.change_attributes] = change_attributes
    it.models[fs.fsSymlink.change_attributes] = change_attributes
    it.models[fs.fsDev.change_attributes] = change_attributes
    # everything else that touches or inspects the real file system is *not* part of the ghost operating system: running it
    # natively would answer from the host's files.  A function under contract that starts using one of these leaves the subset
    # (undecided), it is never silently executed.
    import shutil
    from pyvc.sym import OutOfSubset

    # pure yes/no questions about the live file system: the contract holds for every state of it, so the answer is arbitrary
    # (yes, no, or an OSError such as EACCES / ELOOP); they leave no effect in the trace
    def observe(name):
        def f(it_, *a, **k):
            r = ex.choose(3)
            if r == 2:
                raise os_error(errno.EACCES)
            return bool(r)
        return f
    for n in ("lexists", "isfile", "isdir", "islink", "samefile", "ismount"):
        fn = getattr(os.path, n, None)
        if fn is not None and fn not in it.models:
            it.models[fn] = observe(n)

    def deny(name):
        def f(it_, *a, **k):
            raise OutOfSubset(f"{name} is not modelled by the ghost operating system of this contract")
        return f
    for modname, mod, names in (("os", os, ("lstat", "stat", "unlink", "remove", "rmdir", "listdir", "scandir", "readlink", "open", "replace", "truncate", "access", "chown",
                                            "mkdir", "makedirs", "removedirs", "renames", "walk", "link", "symlink", "mkfifo", "mknod", "utime", "chmod", "lchown", "rename", "fchmod", "fchown")),
                                ("os.path", os.path, ("exists", "lexists", "isfile", "isdir", "islink", "getsize", "getmtime", "realpath", "samefile", "ismount")),
                                ("shutil", shutil, ("rmtree", "copyfile", "copy", "copy2", "move", "copytree"))):
        for n in names:
            fn = getattr(mod, n, None)
            if fn is not None and fn not in it.models:
                it.models[fn] = deny(f"{modname}.{n}")
