"""C26 -- XPAK metadata segments round-trip; rewriting keeps the rest of the archive (DESIGN.md section 4, C26)."""
import io
import itertools
import z3
from pyvc.api import Task, call, Interp, LoopSpec, Contract
from pyvc.interp import PyRaise
from pyvc.models import Model, ModelHost
from pyvc import theory, models
from pyvc.sym import (KInt, KRef, KSeq, SBool, SInt, SObj, And, Or, Not, Implies, OutOfSubset, fresh_name)

PROPERTY = "C26"
FILE = "src/pkgcore/binpkg/xpak.py"
KV = KRef("XpakItem")

MANIFEST = {
    "text": "Unbounded proof of the writer's layout arithmetic for any number of keys and any key/value lengths: index entry k "
            "records the offset sum(len(value_j), j<k) and its value's length (loop invariant over recursively defined prefix "
            "sums); the header announces the index and data lengths; the trailer's size field is index+data+24, so that the "
            "reader's seek(-(size+8), 2) lands on the segment start; every write happens at or after the start of the old "
            "segment (bytes before it are untouched); the file is truncated exactly at the end of the new trailer.  The "
            "reader (keys_dict/_check_magic) and complete rewrite histories are a bounded stand-in: native round trips over "
            "key/value sizes and payload prefixes, including rewrites that shrink by 1..24 bytes.",
    "note": "Trusted: struct.pack lays out 'L' as 4 bytes and 's' fields at their given length (the format strings are not "
            "parsed); file objects' seek/tell/write/truncate semantics (ghost handle); 32-bit range of the length fields is a "
            "precondition; pyvc encoder.",
}
ASSUMPTIONS = ["struct formats '>L{n}sLL', '>8sLL', '>8sL4s' are 4 bytes per L and n bytes per s",
               "all lengths fit in 32 bits; keys are ASCII bytes",
               "an existing segment sits at the end of the file (that is how the reader locates it)"]


class B:
    """ghost byte string: only its length matters"""

    def __init__(self, n, tag=""):
        self.n, self.tag = n, tag


class BHost(ModelHost):
    def __init__(self, n, tag=""):
        self.n, self.tag = n, tag

    def len(self, it):
        return self.n

    def getattr(self, it, name):
        if name in ("encode",):
            return Model(lambda it_, *a: self, "encode")
        raise OutOfSubset(f"bytes.{name}")


class BList(ModelHost):
    """list of ghost byte strings: total length only"""

    def __init__(self, total):
        self.total = total

    def getattr(self, it, name):
        if name == "append":
            def app(it_, b):
                self.total = self.total + (b.n if isinstance(b, BHost) else len(b))
            return Model(app, "list.append")
        raise OutOfSubset(f"list.{name}")

    def joined(self, it, sep):
        if sep != b"":
            raise OutOfSubset("join with a separator")
        return BHost(self.total, "joined")


class Handle(ModelHost):
    def __init__(self, ex, eof):
        self.ex, self.pos, self.eof = ex, SInt(z3.IntVal(0)), eof
        self.ops = []

    def write_bytes(self, n, what):
        self.ops.append(("write", self.pos, n, what))
        self.pos = self.pos + n
        self.eof = SInt(z3.If(self.pos.t > self.eof.t, self.pos.t, self.eof.t))

    def getattr(self, it, name):
        if name == "seek":
            def seek(it_, off, whence=0):
                self.pos = (SInt(z3.IntVal(0)) + off) if whence == 0 else (self.eof + off)
                self.ops.append(("seek", self.pos))
            return Model(seek, "seek")
        if name == "tell":
            return Model(lambda it_: self.pos, "tell")
        if name == "write":
            return Model(lambda it_, b: self.write_bytes(b.n if isinstance(b, BHost) else len(b), "body"), "write")
        if name == "truncate":
            def trunc(it_, *a):
                self.eof = self.pos
                self.ops.append(("truncate", self.pos))
            return Model(trunc, "truncate")
        if name == "close":
            return Model(lambda it_: self.ops.append(("close",)), "close")
        raise OutOfSubset(f"file.{name}")


def t_write(ex):
    import pkgcore.binpkg.xpak as X
    P = "C26.write_xpak"
    items = KSeq(KV).fresh("items")
    n = z3.Length(items.t)
    klen, vlen = theory.ufun("key_len", KV.sort, z3.IntSort()), theory.ufun("val_len", KV.sort, z3.IntSort())
    KS, VS = theory.ufun("KSUM", z3.IntSort(), z3.IntSort()), theory.ufun("VSUM", z3.IntSort(), z3.IntSort())
    theory._add_axiom(("sum0",), z3.And(KS(0) == 0, VS(0) == 0))

    def unfold(k):
        kt = k.t if isinstance(k, SInt) else z3.IntVal(k)
        x = items.t[kt]
        theory._add_axiom(("sum", z3.simplify(kt).get_id()),
                          z3.Implies(z3.And(kt >= 0, kt < n), z3.And(KS(kt + 1) == KS(kt) + klen(x), VS(kt + 1) == VS(kt) + vlen(x),
                                                                       klen(x) >= 0, vlen(x) >= 0)))
    eof0 = KInt.fresh("old_file_size")
    ex.assume(eof0 >= 0)
    has_old = ex.choose(2) == 0
    old_start = KInt.fresh("old_xpak_start")
    if has_old:
        ex.assume(And(old_start >= 0, old_start + 32 <= eof0))
    handle = Handle(ex, eof0)

    class Source(ModelHost):
        def getattr(self, it, name):
            if name == "bytes_fileobj":
                return Model(lambda it_, writable=False: handle, "bytes_fileobj")
            raise OutOfSubset(name)

    class Data(ModelHost):
        def getattr(self, it, name):
            if name == "items":
                return Model(lambda it_: items, "items")
            raise OutOfSubset(name)

    def keys_post(it, self_):
        if has_old:
            self_.fields["xpak_start"] = old_start
            return []
        raise PyRaise(X.MalformedXpak("no segment"))

    packs = []

    def pack_model(it, fmt, *args):
        total = SInt(z3.IntVal(0))
        for a in args:
            total = total + (a.n if isinstance(a, BHost) else 4)
        k = it.loop_k.get(("Xpak.write_xpak", 0))
        if k is not None and len(args) == 4:
            unfold(k)
            x = items.t[k.t]
            ex.oblige(f"{P}.index_entry.records_key_length", models.eq(it, args[0], SInt(klen(x))))
            ex.oblige(f"{P}.index_entry.offset_is_sum_of_previous_values", models.eq(it, args[2], SInt(VS(k.t))))
            ex.oblige(f"{P}.index_entry.records_value_length", models.eq(it, args[3], SInt(vlen(x))))
        return BHost(total, "packed")

    hdr, trl = [], []

    def inv(L, k):
        unfold(k)
        kt = k.t if isinstance(k, SInt) else z3.IntVal(k)
        cp = L.cur_pos
        return And(SBool((cp.t if isinstance(cp, SInt) else z3.IntVal(cp)) == VS(kt)), SBool(z3.And(KS(kt) >= 0, VS(kt) >= 0)),
                   SBool(L.new_index.total.t == 12 * kt + KS(kt)) if isinstance(L.new_index, BList) else (kt == 0),
                   SBool(L.new_data.total.t == VS(kt)) if isinstance(L.new_data, BList) else (kt == 0))

    def unpack_item(it, x):
        return [BHost(SInt(klen(x.t)), "key"), BHost(SInt(vlen(x.t)), "val")]
    loops = {("Xpak.write_xpak", 0): LoopSpec(inv, havoc={"new_index": lambda it: BList(KInt.fresh("index_bytes")),
                                                          "new_data": lambda it: BList(KInt.fresh("data_bytes"))},
                                              mutates=["new_index", "new_data"])}
    it = Interp(ex, label=P, loops=loops, contracts={X.Xpak.keys: Contract("Xpak.keys", keys_post)}, models={X.struct.pack: pack_model})
    it.ref_unpack = {"XpakItem": unpack_item}
    it.obj_models = {id(X.Xpak.header): {"write": Model(lambda it_, h, magic, a, b: (hdr.append((h.pos, a, b)), h.write_bytes(16, "header")), "header.write"),
                                         "size": 16},
                     id(X.Xpak.trailer): {"write": Model(lambda it_, h, magic, size, post: (trl.append((h.pos, size)), h.write_bytes(16, "trailer")), "trailer.write")}}
    # `new_index = []` / `new_data = []` are python lists: the loop contract replaces them by length-only ghosts;
    # before the loop they are empty lists, which the invariant reads as total 0 at k = 0
    fn = it.target(FILE, "Xpak.write_xpak")
    out = call(it, fn, X.Xpak, Source(), Data())
    if out.raised:
        ex.oblige(f"{P}.raises.nothing", False, kind="exceptional-postcondition")
        return
    ex.cover("written")
    start = old_start if has_old else eof0
    ilen, dlen = 12 * n + KS(n), VS(n)
    ex.oblige(f"{P}.header.announces_index_and_data_length",
              len(hdr) == 1 and And(models.eq(it, hdr[0][0], start), models.eq(it, hdr[0][1], SInt(ilen)), models.eq(it, hdr[0][2], SInt(dlen))))
    ex.oblige(f"{P}.trailer.size_field_is_index_plus_data_plus_24",
              len(trl) == 1 and And(models.eq(it, trl[0][1], SInt(ilen + dlen + 24)), models.eq(it, trl[0][0], start + SInt(16 + ilen + dlen))))
    writes = [o for o in handle.ops if o[0] == "write"]
    ex.oblige(f"{P}.frame.nothing_before_the_segment_is_written", And(*[SBool(o[1].t >= start.t) for o in writes]) if writes else False, kind="frame")
    tr = [o for o in handle.ops if o[0] == "truncate"]
    ex.oblige(f"{P}.effects.truncated_at_end_of_new_trailer", len(tr) == 1 and models.eq(it, tr[0][1], start + SInt(32 + ilen + dlen)), kind="effect-invariant")
    ex.oblige(f"{P}.ensures.reader_seek_lands_on_segment_start",
              len(trl) == 1 and SBool(handle.eof.t - ((trl[0][1].t if isinstance(trl[0][1], SInt) else z3.IntVal(trl[0][1])) + 8) == start.t))
    ex.oblige(f"{P}.effects.handle_closed_last", bool(handle.ops) and handle.ops[-1] == ("close",), kind="effect-invariant")


def enum_xpak(seed):
    """native round trips and rewrites through data sources"""
    import os, tempfile
    from pkgcore.binpkg.xpak import Xpak
    tmpd = tempfile.mkdtemp(dir="/var/tmp")
    path = os.path.join(tmpd, "pkg.tbz2")

    class _Src:
        """the archive on disk (write_xpak and Xpak take a path)"""
        def bytes_fileobj(self):
            return open(path, "rb")
    src_reader = _Src()
    cases, fails = 0, []

    def bad(model, detail):
        # a few examples per input class, so that listed findings never crowd out other failures
        cls_ = bool(model.get("key_rewritten_on_reading"))
        if sum(1 for f in fails if bool(f["model"].get("key_rewritten_on_reading")) == cls_) < (2 if cls_ else 4):
            fails.append({"model": model, "detail": detail})
    payloads = [b"", b"tarball-bytes" * 3]
    dicts = []
    for nk in (0, 1, 2, 4):
        for vl in (0, 1, 5, 40):
            dicts.append({f"KEY{i}" + "x" * i: (bytes([65 + i]) * (vl + i)) for i in range(nk)})
    dicts.append({"environment.bz2": b"\x00\xff" * 9, "CATEGORY": "dev-util\n", "PF": "é-1"})
    # the package may be reached through a symbolic link (the $PKGDIR/<category>/ -> All/ layout); keys differing only in case
    dicts.append({"repo": "gentoo", "X": "1"})
    dicts.append({"environment.bz2": b"", "environment": b"", "CATEGORY": "", "PF": "p-1"})   # empty values of both kinds
    link = os.path.join(tmpd, "a-link-with-quite-a-long-name-to-the-package.tbz2")
    os.symlink(path, link)
    for pre, via in [(p_, v_) for p_ in payloads + [b"T" * 500] for v_ in ("path", "symlink")]:
        for d1 in dicts:
            with open(path, "wb") as fh:
                fh.write(pre)
            src = path if via == "path" else link
            Xpak.write_xpak(src, d1)
            cases += 1

            def check(d, what):
                x = Xpak(src)
                got = {k: x.get(k) if hasattr(x, "get") else x[k] for k in x.keys()}
                want = {k: (v if not isinstance(v, str) else v) for k, v in d.items()}
                for k, v in want.items():
                    g = got.get(k)
                    vb = v.encode("utf8") if isinstance(v, str) else v
                    gb = g.encode("utf8") if isinstance(g, str) else g
                    # text values come back decoded, environment values as bytes -- also when they are empty
                    if g is not None and isinstance(g, bytes) != k.startswith("environment"):
                        bad({"prefix_len": len(pre), "keys": list(d), "via": via}, f"{what}: key {k!r} read back as {type(g).__name__} {g!r}; {'environment values are bytes' if k.startswith('environment') else 'text values are str'}")
                    if gb != vb:
                        bad({"prefix_len": len(pre), "keys": list(d), "key_rewritten_on_reading": [k] if k.upper() in got and k not in got else []}, f"{what}: key {k!r} read back as {g!r}, written {v!r}")
                if list(got) != list(want):
                    bad({"prefix_len": len(pre), "keys": list(d), "key_rewritten_on_reading": [k for k in want if k not in got and k.upper() in got]}, f"{what}: keys {list(got)} != written {list(want)}")
                raw = open(path, "rb").read()
                if raw[:len(pre)] != pre:
                    bad({"prefix_len": len(pre), "via": via}, f"{what} (through the {via}): bytes before the segment changed")
                expect_len = len(pre) + 32 + sum(12 + len(k.encode()) for k in d) + sum(len(v.encode("utf8") if isinstance(v, str) else v) for v in d.values())
                if len(raw) != expect_len:
                    bad({"prefix_len": len(pre), "keys": list(d), "via": via}, f"{what} (through the {via}): file is {len(raw)} bytes, segment should end at {expect_len} (old segment not entirely replaced)")
            try:
                check(d1, "first write")
                for d2 in dicts[:: 3] + [dict(list(d1.items())[:-1]), {k: v[:-1] if len(v) > 1 else v for k, v in d1.items()}]:
                    cases += 1
                    Xpak.write_xpak(src, d2)
                    check(d2, f"rewrite of {list(d1)} with {list(d2)}")
                    Xpak.write_xpak(src, d1)
            except Exception as e:
                bad({"prefix_len": len(pre), "keys": list(d1)}, f"round trip raised {e!r}")
    import shutil
    shutil.rmtree(tmpd, ignore_errors=True)
    return {"name": "C26.xpak.bounded_enumeration", "bound": f"{len(dicts)} dictionaries (0-4 keys, value sizes 0-44, str/bytes/environment keys) x 3 payload prefixes x the package path itself / a symbolic link to it, each rewritten with 8 other dictionaries incl. 1-byte shrinks",
            "cases": cases, "failures": fails}


def tasks():
    return [Task("C26.write_xpak", t_write, [(FILE, "Xpak.write_xpak")], enumerate=enum_xpak)]


REPLAY = {}
WITNESSES = {"key_rewritten_on_reading": lambda m: bool(m.get("key_rewritten_on_reading"))}
