"""C07 -- restrictions that compare equal are interchangeable (DESIGN.md section 4, C07)."""
import z3
from pyvc.api import Task, call, Interp, Contract
from pyvc.models import Model
from pyvc import models, theory
from pyvc.sym import (KStr, KBool, KRef, KSet, SBool, SInt, SStr, SObj, MutSet, And, Or, Not, Implies)

PROPERTY = "C07"
F_RST = "src/pkgcore/ebuild/restricts.py"
F_VAL = "src/pkgcore/restrictions/values.py"
F_PKG = "src/pkgcore/restrictions/packages.py"
F_BOOL = "src/pkgcore/restrictions/boolean.py"
Ver_, Rev_ = KRef("VersionStr"), KRef("RevisionVal")

MANIFEST = {
    "text": "Unbounded proof over all attribute values that two restriction objects which compare equal return the same match "
            "result for every argument and have equal hashes, for _VersionMatch (real __eq__/_convert_ops/__hash__/match, "
            "ver_cmp through its contract), StrExactMatch, StrGlobMatch, ContainmentMatch (set and substring branches) and the "
            "hash/equality attribute lists of PackageRestriction, Conditional and boolean nodes; atoms are covered by C02 "
            "(== / hash) and C04 (match from the compared attributes).",
    "note": "Trusted: snakeoil GenericEquality compares exactly __attr_comparison__ (read from the real classes on every run); "
            "hash() is a function of the hashed value; str.lower is an idempotent function; dict/lru_cache lookups return the entry "
            "stored under an equal key with equal hash; pyvc encoder.",
}
ASSUMPTIONS = ["GenericEquality: a == b iff same class and all __attr_comparison__ attributes equal",
               "hash(x) is a function of the value of x", "ver_cmp is a function of its arguments with values in {-1,0,1}"]


def as_bool(v):
    return v if isinstance(v, SBool) else SBool(z3.BoolVal(bool(v)))


def hash_model(it, v):
    return ("hash-of", v)


def vc_contract(ex):
    f = theory.ufun("ver_cmp_result", Ver_.sort, Rev_.sort, Ver_.sort, Rev_.sort, z3.IntSort())
    none_rev = z3.Const("rev_None", Rev_.sort)

    def post(it, v1, r1, v2, r2):
        t = f(v1.t, none_rev if r1 is None else r1.t, v2.t, none_rev if r2 is None else r2.t)
        ex.assume(SBool(z3.And(t >= -1, t <= 1)))
        return SInt(t)
    return Contract("cpv.ver_cmp", post)


OPS = [(-1,), (-1, 0), (0,), (0, 1), (1,)]


def mk_vm(ex, tag):
    import pkgcore.ebuild.restricts as R
    droprev = bool(ex.choose(2))
    vals = (0,) if droprev else OPS[ex.choose(len(OPS))]
    return SObj(R._VersionMatch, {"droprev": droprev, "vals": vals, "negate": bool(ex.choose(2)),
                                  "ver": Ver_.fresh("ver" + tag), "rev": Rev_.fresh("rev" + tag)})


def t_versionmatch(ex):
    import pkgcore.ebuild.cpv as C
    P = "C07._VersionMatch"
    it = Interp(ex, label=P, contracts={C.ver_cmp: vc_contract(ex)})
    it.hash_model = hash_model
    a, b = mk_vm(ex, "1"), mk_vm(ex, "2")
    pkg = SObj(type("pkg", (), {}), {"version": Ver_.fresh("pv"), "revision": Rev_.fresh("pr")})
    e = call(it, it.target(F_RST, "_VersionMatch.__eq__"), a, b)
    ex.oblige(f"{P}.__eq__.raises.nothing", not e.raised, kind="exceptional-postcondition")
    if e.raised:
        return
    eq = as_bool(e.value)
    ex.inputs.update({"a": {k: v for k, v in a.fields.items() if k in ("droprev", "vals", "negate")},
                      "b": {k: v for k, v in b.fields.items() if k in ("droprev", "vals", "negate")},
                      "same_ver_rev": And(a.fields["ver"] == b.fields["ver"], a.fields["rev"] == b.fields["rev"])})
    ma, mb = call(it, it.target(F_RST, "_VersionMatch.match"), a, pkg), call(it, it.target(F_RST, "_VersionMatch.match"), b, pkg)
    ex.oblige(f"{P}.match.raises.nothing", not (ma.raised or mb.raised), kind="exceptional-postcondition")
    if not (ma.raised or mb.raised):
        ex.oblige(f"{P}.ensures.equal_restrictions_match_alike", Implies(eq, as_bool(ma.value) == as_bool(mb.value)))
    ha, hb = call(it, it.target(F_RST, "_VersionMatch.__hash__"), a), call(it, it.target(F_RST, "_VersionMatch.__hash__"), b)
    ex.oblige(f"{P}.__hash__.raises.nothing", not (ha.raised or hb.raised), kind="exceptional-postcondition")
    if not (ha.raised or hb.raised):
        ex.oblige(f"{P}.ensures.equal_restrictions_hash_alike", Implies(eq, as_bool(models.eq(it, ha.value, hb.value))))
    ex.cover("compared")


def generic_eq(it, cls, a, b):
    """GenericEquality as the class declares it *now*: the conjunction over __attr_comparison__ (read from the real class on every run).
    An attribute the contract's record does not carry is resolved on the real class (a class-level constant compares equal to itself);
    if that is not possible either the contract does not apply (undecided), it never crashes."""
    from pyvc.sym import OutOfSubset
    parts = []
    for n in cls.__attr_comparison__:
        if n in ("_hash", "__class__"):
            continue
        if n in a.fields and n in b.fields:
            parts.append(as_bool(models.eq(it, a.fields[n], b.fields[n])))
            continue
        import inspect
        try:
            d = inspect.getattr_static(cls, n)
        except AttributeError:
            raise OutOfSubset(f"{cls.__name__}.__attr_comparison__ names {n!r}, which the contract's record of the class does not carry")
        if isinstance(d, (property, staticmethod, classmethod)) or callable(d) or hasattr(d, "__get__"):
            raise OutOfSubset(f"{cls.__name__}.__attr_comparison__ names the computed attribute {n!r}: the contract does not model it")
        # a plain class attribute: the same constant on both sides
    return And(*parts) if parts else SBool(z3.BoolVal(True))


def t_values(ex):
    """StrExactMatch / StrGlobMatch / ContainmentMatch: equal attribute tuples => same match, same hash"""
    import re
    import pkgcore.restrictions.values as V
    which = ex.choose(3)
    it = Interp(ex, label="C07.values")
    it.hash_model = hash_model
    if which == 0:
        cls, P = V.StrExactMatch, "C07.StrExactMatch"
        mk = lambda t: SObj(cls, {"exact": KStr.fresh("exact" + t), "case_sensitive": KBool.fresh("cs" + t), "negate": KBool.fresh("neg" + t)})
        arg = KStr.fresh("value")
    elif which == 1:
        cls, P = V.StrGlobMatch, "C07.StrGlobMatch"
        flag = lambda t: (re.IGNORECASE if ex.choose(2) else 0)
        mk = lambda t: SObj(cls, {"glob": KStr.fresh("glob" + t), "prefix": KBool.fresh("prefix" + t), "negate": KBool.fresh("neg" + t), "flags": flag(t)})
        arg = KStr.fresh("value")
    else:
        cls, P = V.ContainmentMatch, "C07.ContainmentMatch"
        mk = lambda t: SObj(cls, {"vals": MutSet(KSet(KStr).fresh("vals" + t), frozen=True), "all": KBool.fresh("all" + t), "negate": KBool.fresh("neg" + t)})
        arg = MutSet(KSet(KStr).fresh("value"), frozen=True)
    a, b = mk("1"), mk("2")
    eq = generic_eq(it, cls, a, b)
    ex.oblige(f"{P}.attrs_compared_are_those_listed", set(cls.__attr_comparison__) - {"_hash"} == set(a.fields), kind="frame")
    fn = it.target(F_VAL, f"{cls.__name__}.match")
    ma, mb = call(it, fn, a, arg), call(it, fn, b, arg)
    ex.oblige(f"{P}.match.raises.nothing", not (ma.raised or mb.raised), kind="exceptional-postcondition")
    if not (ma.raised or mb.raised):
        ex.oblige(f"{P}.ensures.equal_restrictions_match_alike", Implies(eq, as_bool(ma.value) == as_bool(mb.value)))
    hfn = it.target(F_VAL, "_HashedGenericEquality.__hash__")
    ha, hb = call(it, hfn, a), call(it, hfn, b)
    ex.oblige(f"{P}.__hash__.raises.nothing", not (ha.raised or hb.raised), kind="exceptional-postcondition")
    if not (ha.raised or hb.raised):
        ex.oblige(f"{P}.ensures.equal_restrictions_hash_alike", Implies(eq, as_bool(models.eq(it, ha.value, hb.value))))


def t_hash_attr_lists(ex):
    """PackageRestriction / Conditional / boolean.base: the value hashed is determined by the attributes equality compares"""
    import pkgcore.restrictions.packages as Pk
    import pkgcore.restrictions.boolean as B
    R_ = KRef("ChildRestriction")
    which = ex.choose(4)
    it = Interp(ex, label="C07.hash_lists")
    it.hash_model = hash_model
    if which == 3:
        # the multi-attribute form shares __eq__ / __hash__ with its parent; its `attr` is a class constant (None)
        cls, P, f = Pk.PackageRestrictionMulti, "C07.PackageRestrictionMulti", F_PKG
        mk = lambda t: SObj(cls, {"negate": KBool.fresh("neg" + t), "_attr_split": KStr.fresh("attrs" + t), "restriction": R_.fresh("child" + t), "attrs": None})
        a, b = mk("1"), mk("2")
        for o in (a, b):
            o.fields["attrs"] = o.fields["_attr_split"]
        qn = "PackageRestriction.__hash__"
    elif which == 0:
        cls, P, f = Pk.PackageRestriction, "C07.PackageRestriction", F_PKG
        mk = lambda t: SObj(cls, {"negate": KBool.fresh("neg" + t), "_attr_split": KStr.fresh("attrs" + t), "restriction": R_.fresh("child" + t),
                                  "attrs": None})
        # attrs is derived from _attr_split (klass property): model it as the same value
        a, b = mk("1"), mk("2")
        for o in (a, b):
            o.fields["attrs"] = o.fields["_attr_split"]
        qn = "PackageRestriction.__hash__"
    elif which == 1:
        cls, P, f = Pk.Conditional, "C07.Conditional", F_PKG
        mk = lambda t: SObj(cls, {"negate": KBool.fresh("neg" + t), "attr": KStr.fresh("attr" + t), "restriction": R_.fresh("child" + t),
                                  "payload": KStr.fresh("payload" + t)})
        a, b = mk("1"), mk("2")
        qn = "Conditional.__hash__"
    else:
        cls, P, f = B.AndRestriction, "C07.boolean.base", F_BOOL
        mk = lambda t: SObj(cls, {"negate": KBool.fresh("neg" + t), "type": KStr.fresh("type" + t), "restrictions": (R_.fresh("c1" + t), R_.fresh("c2" + t))})
        a, b = mk("1"), mk("2")
        qn = "base.__hash__"
    eq = generic_eq(it, cls, a, b)
    # equality has to look at everything match() reads (the record's fields other than caches): equal objects agree on all of them
    for n in sorted(a.fields):
        if n in ("attrs",) or n.startswith("_hash"):
            continue
        same = models.eq(it, a.fields[n], b.fields[n]) if not isinstance(a.fields[n], tuple) else And(*[as_bool(models.eq(it, x, y)) for x, y in zip(a.fields[n], b.fields[n])])
        ex.oblige(f"{P}.ensures.equal_restrictions_agree_on_{n.lstrip('_')}", Implies(eq, as_bool(same)))
    fn = it.target(f, qn)
    ha, hb = call(it, fn, a), call(it, fn, b)
    ex.oblige(f"{P}.__hash__.raises.nothing", not (ha.raised or hb.raised), kind="exceptional-postcondition")
    if not (ha.raised or hb.raised):
        ex.oblige(f"{P}.ensures.equal_restrictions_hash_alike", Implies(eq, as_bool(models.eq(it, ha.value, hb.value))))


MATCH_ATTRS = ("category", "package", "op", "fullver", "version", "revision", "negate_vers", "slot", "subslot", "use", "repo_id")


def t_atom(ex):
    """atoms: the attributes equality compares determine every attribute atom.restrictions reads (C04), so equal atoms
    build the same restriction and match alike; in particular the *spelling* of the version, which the `=*` glob matches on"""
    import pkgcore.ebuild.cpv as C
    from contracts import c02
    P = "C07.atom"
    it = Interp(ex, label=P, contracts={C.ver_cmp: c02.vc_contract(ex)})
    a, b = c02.mk_atom(ex, "1"), c02.mk_atom(ex, "2")
    c02.vc_laws(ex, [a, b])
    c02.atom_invariant(ex, a, b)
    c02.atom_invariant(ex, b, a)
    eq = c02.atom_eq_spec(it, a, b)
    ex.inputs.update({f"{k}{i}": o.fields[k] for i, o in ((1, a), (2, b)) for k in ("cpvstr", "fullver", "op", "use")})
    for n in MATCH_ATTRS:
        r = models.eq(it, a.fields[n], b.fields[n])
        ex.oblige(f"{P}.ensures.equal_atoms_agree_on_{n}", Implies(eq, as_bool(r)))


def t_caching_repo(ex):
    """the resolver's query cache: an answer is reused only for a restriction equal to the one it was computed for"""
    from pyvc.models import Model, ModelHost
    from pyvc.sym import KRef, SObj, SBool, SInt, Implies, Not, And, OutOfSubset
    from pyvc import theory
    import pkgcore.repository.misc as RM
    P = "C07.caching_repo.match"
    R_ = KRef("CachedRestriction")
    r1, r2 = R_.fresh("first_query"), R_.fresh("second_query")
    calls = []
    strategy = object()

    class Answer(ModelHost):
        def __init__(self, q):
            self.q = q

    class Db(ModelHost):
        def getattr(self, it_, name):
            if name == "itermatch":
                def itermatch(it__, restrict, sorter=None, **k):
                    calls.append((restrict, sorter))
                    return Answer(restrict)
                return Model(itermatch, "db.itermatch")
            raise OutOfSubset(f"db.{name}")
    H = theory.ufun("restriction_hash", R_.sort, z3.IntSort())
    it = Interp(ex, label=P, models={RM.caching_iter: lambda it_, x, *a: x})
    it.hash_model = lambda it_, v: SInt(H(v.t)) if hasattr(v, "t") else hash(v)
    repo = SObj(RM.caching_repo, {"__db__": Db(), "__strategy__": strategy, "__cache__": {}})
    fn = it.target("src/pkgcore/repository/misc.py", "caching_repo.match")
    o1 = call(it, fn, repo, r1)
    o2 = call(it, fn, repo, r2)
    ex.oblige(f"{P}.raises.nothing", not (o1.raised or o2.raised), kind="exceptional-postcondition")
    if o1.raised or o2.raised:
        return
    a1, a2 = o1.value, o2.value
    ex.oblige(f"{P}.ensures.first_answer_is_the_database_query_for_that_restriction_with_the_forced_sorter",
              isinstance(a1, Answer) and a1.q is r1 and len(calls) >= 1 and calls[0][0] is r1 and calls[0][1] is strategy)
    ok = isinstance(a2, Answer)
    ex.oblige(f"{P}.ensures.second_answer_is_a_database_answer", ok)
    if ok:
        ex.oblige(f"{P}.ensures.an_answer_is_reused_only_for_an_equal_restriction", SBool(a2.q.t == r2.t))
        if len(calls) == 1:
            ex.cover("cache hit")
        else:
            ex.cover("cache miss")
            ex.oblige(f"{P}.ensures.a_miss_queries_the_database_for_the_new_restriction_with_the_forced_sorter", calls[1][0] is r2 and calls[1][1] is strategy)


# ------------------------------------------------------------------ bounded stand-in: equal-looking variants on the real classes ----
def enum_pairs(seed):
    """independently constructed restrictions from a generator of equal-looking variants: whenever two compare equal they must hash alike
    and match exactly the same packages / values; a restriction-keyed cache must answer each query with that query's own result"""
    import itertools
    from pkgcore.ebuild import restricts as R
    from pkgcore.ebuild.atom import atom
    from pkgcore.ebuild.cpv import VersionedCPV, Revision
    from pkgcore.restrictions import values, packages, boolean
    from pkgcore.repository import misc
    from pkgcore.test.misc import FakePkg
    fails, cases = [], 0

    def bad(model, detail):
        if len(fails) < 6:
            fails.append({"model": model, "detail": detail})

    def compare(kind, objs, probes, matcher):
        nonlocal cases
        for (na, a), (nb, b) in itertools.combinations(objs, 2):
            cases += 1
            try:
                ab, ba = bool(a == b), bool(b == a)
            except Exception as e:
                bad({"kind": kind, "a": na, "b": nb}, f"{na} == {nb} raised {type(e).__name__}: {e}")
                continue
            if ab != ba:
                bad({"kind": kind, "a": na, "b": nb}, f"{na} == {nb} is {ab} but {nb} == {na} is {ba}: which of the two a cache treats as the other depends on the order they arrive in")
                continue
            if not ab:
                continue
            if hash(a) != hash(b):
                bad({"kind": kind, "a": na, "b": nb}, f"{na} == {nb} but their hashes differ")
            def m_(o, p):
                try:
                    return matcher(o, p)
                except Exception as e:   # both sides raising alike is agreement
                    return ("raises", type(e).__name__)
            diff = [str(p) for p in probes if m_(a, p) != m_(b, p)]
            if diff:
                bad({"kind": kind, "a": na, "b": nb, "argument": diff[0]}, f"{na} == {nb} but they disagree on {diff[:3]}")
    vers = ["1", "1.0", "1.00", "1.01", "1.010", "1.1", "1.10", "1.100", "3.1", "3.10", "3.1.2", "3.1.20", "2.1_p1", "2.10_p1", "1.0.0"]
    pkgs = [VersionedCPV(f"c/p-{v}{r}") for v in vers + ["3.5", "1.05", "1.5", "2.5_p1", "3.1.5"] for r in ("", "-r1")]
    vms = []
    for op in ("<", "<=", "=", "~", ">=", ">"):
        for v in vers:
            for rev in ((None,) if op == "~" else (None, Revision("0"), Revision("1"))):
                for neg in (False, True):
                    try:
                        vms.append((f"VersionMatch({op!r}, {v!r}, rev={rev}, negate={neg})", R.VersionMatch(op, v, rev=rev, negate=neg)))
                    except Exception:
                        pass
    compare("VersionMatch", vms, pkgs, lambda r, p: r.match(p))
    inner = []
    for op in ("<", "=", "~", ">="):
        for v in vers:
            for neg in (False, True):
                inner.append((f"_VersionMatch({op!r}, {v!r}, negate={neg})", R._VersionMatch(op, v, None, negate=neg)))
    compare("_VersionMatch", inner, pkgs, lambda r, p: r.match(p))
    repo = type("Repo", (), {"repo_id": "gentoo"})()
    fake = [FakePkg(f"a/b-{v}", slot=sl, subslot=ss, repo=repo, use=u, iuse=("x", "y")) for v in ("1.0", "1.00", "3.1", "3.10", "3.5") for sl, ss in (("0", "0"), ("0", "1"), ("1", "1"))
            for u in ((), ("x",), ("x", "y"))]
    atoms = ["a/b", "!a/b", "!!a/b", "a/b:0", "a/b:0/0", "a/b:0/1", "a/b:0=", "a/b:=", "a/b:*", "a/b[x,y]", "a/b[y,x]", "a/b[x]", "a/b[x(+)]", "a/b[x(-)]", "a/b[-x]", "a/b[!x?]", "a/b::gentoo",
             "=a/b-1.0", "=a/b-1.00", "~a/b-1.0", "~a/b-1.0-r1", "=a/b-1.0-r0", ">=a/b-3.1", ">=a/b-3.10", "<a/b-3.10", "<a/b-3.1", "=a/b-3.1*", "=a/b-3.10*", ">=a/b-3.1:0[x]", ">=a/b-3.10:0[x]"]
    aobj = []
    for t in atoms:
        try:
            aobj.append((f"atom({t!r})", atom(t)))
        except Exception:
            pass
    compare("atom", aobj, fake, lambda r, p: r.match(p))
    # the USE restrictions atoms build (flag required on / off, with a (+) or (-) default for packages that lack the flag)
    use_atoms = ["a/b[x]", "a/b[-x]", "a/b[x(+)]", "a/b[x(-)]", "a/b[-x(+)]", "a/b[-x(-)]", "a/b[x,y]", "a/b[y,x]", "a/b[x(+),y(+)]", "a/b[x(-),y(-)]", "a/b[x(+),-y(-)]"]
    fake_use = [FakePkg("a/b-1", repo=repo, use=u, iuse=iu) for iu in ((), ("x",), ("y",), ("x", "y")) for u in ((), ("x",), ("y",), ("x", "y")) if set(u) <= set(iu)]
    use_restr = []
    for t in use_atoms:
        for i_, r_ in enumerate(x for x in atom(t).restrictions if "use" in type(x).__name__.lower() or "use" in str(getattr(x, "attr", "")).lower() or "UseDep" in type(x).__name__):
            use_restr.append((f"USE restriction #{i_} of atom({t!r})", r_))
    compare("use_restriction", use_restr, fake_use, lambda r, p: r.match(p))
    # dependency sets (boolean trees of atoms): the same members in another order or written twice
    from pkgcore.ebuild.conditionals import DepSet
    dsets = [(f"DepSet({t!r})", DepSet.parse(t, atom)) for t in ("a/b a/c", "a/c a/b", "a/b a/b a/c", "a/b", "|| ( a/b a/c )", "|| ( a/c a/b )", "x? ( a/b ) a/c", "a/c x? ( a/b )",
                                                                 "a/b a/b", "a/c a/c", "a/b a/c a/d", "a/b a/b a/d", "a/d a/b a/b", "a/b a/c a/c", "|| ( a/b a/c ) || ( a/b a/c )", "|| ( a/b a/c ) a/b")]
    # dependency sets are not matched against packages: equal ones must have the same members
    compare("depset", dsets, [None], lambda r, p: sorted(set(map(str, r.restrictions))))
    from pkgcore.restrictions.required_use import find_constraint_satisfaction
    ruse = [(f"REQUIRED_USE({t!r})", DepSet.parse(t, values.ContainmentMatch, operators={"||": boolean.OrRestriction, "": boolean.AndRestriction, "^^": boolean.JustOneRestriction, "??": boolean.AtMostOneOfRestriction},
                                                    element_func=lambda d: values.ContainmentMatch(d[1:], negate=True) if d[0] == "!" else values.ContainmentMatch(d), attr="REQUIRED_USE"))
            for t in ("a b", "b a", "a a", "b b", "a a b", "a b b", "|| ( a b )", "|| ( b a )", "|| ( a b ) a", "a || ( a b )", "^^ ( a b )", "^^ ( a b ) ^^ ( a b )", "a? ( b )", "a? ( b ) a? ( b )", "a? ( b ) b")]
    for n_, r_ in ruse:     # the probe itself must work on every one of them (an exception on both sides would read as agreement)
        list(find_constraint_satisfaction(r_, {"a", "b"}))
    compare("required_use", ruse, [None], lambda r, p: sorted(tuple(sorted(k for k, v in sol.items() if v)) for sol in find_constraint_satisfaction(r, {"a", "b"})))
    # the restriction trees atoms and query parsers build from version restrictions
    trees = [(f"And(PackageRestriction(fullver, {n}))", boolean.AndRestriction(packages.PackageRestriction("package", values.StrExactMatch("p")), vm)) for n, vm in vms[::3]]
    compare("tree", trees, pkgs, lambda r, p: r.match(p))
    # multi-attribute package restrictions (what USE-dependency defaults are made of): different attribute tuples, same child
    class _AnyOf(values.base):
        __slots__ = ("want",)
        __attr_comparison__ = ("want",)
        __hash__ = object.__hash__

        def __init__(self, want):
            object.__setattr__(self, "want", want)

        def match(self, vals):
            return self.want in [str(v) for v in vals]

        def __eq__(self, o):
            return isinstance(o, _AnyOf) and o.want == self.want

        def __hash__(self):
            return hash(self.want)
    multi = []
    for attrs in (("category", "package"), ("package", "category"), ("category", "slot"), ("package", "fullver"), ("category",)):
        for want in ("c", "p"):
            for neg in (False, True):
                try:
                    multi.append((f"PackageRestrictionMulti({attrs}, any-of {want!r}, negate={neg})", packages.PackageRestrictionMulti(attrs, _AnyOf(want), negate=neg)))
                except Exception:
                    pass
    compare("multi", multi, pkgs, lambda r, p: r.match(p))
    vals = [("StrExactMatch('Ab')", values.StrExactMatch("Ab")), ("StrExactMatch('ab', case_sensitive=False)", values.StrExactMatch("ab", case_sensitive=False)),
            ("StrExactMatch('AB', case_sensitive=False)", values.StrExactMatch("AB", case_sensitive=False)), ("StrExactMatch('Ab', negate=True)", values.StrExactMatch("Ab", negate=True)),
            ("StrGlobMatch('ab')", values.StrGlobMatch("ab")), ("StrGlobMatch('ab', prefix=False)", values.StrGlobMatch("ab", prefix=False)),
            ("StrGlobMatch('AB', case_sensitive=False)", values.StrGlobMatch("AB", case_sensitive=False)), ("StrGlobMatch('ab', case_sensitive=False)", values.StrGlobMatch("ab", case_sensitive=False)),
            ("StrGlobMatch('ab', negate=True)", values.StrGlobMatch("ab", negate=True))]
    compare("value", vals, ["ab", "Ab", "AB", "abc", "cab", "b", ""], lambda r, v: r.match(v))
    # the whole constructor grid of the string matchers: every argument that takes part in matching takes part in equality
    grid = []
    for pat in (r"\d", r"\D", r"\w", r"\W", r"\s", r"\S", "a", "A", "[a-z]b", "[A-Z]b", "^ab", "ab$", "a.", r"a\."):
        for cs in (True, False):
            for full in (False, True):
                for neg in (False, True):
                    grid.append((f"StrRegex({pat!r}, case_sensitive={cs}, match={full}, negate={neg})", values.StrRegex(pat, case_sensitive=cs, match=full, negate=neg)))
    for text in ("ab", "Ab", "AB", "a", "b"):
        for cs in (True, False):
            for neg in (False, True):
                grid.append((f"StrExactMatch({text!r}, case_sensitive={cs}, negate={neg})", values.StrExactMatch(text, case_sensitive=cs, negate=neg)))
                for pre in (True, False):
                    grid.append((f"StrGlobMatch({text!r}, case_sensitive={cs}, prefix={pre}, negate={neg})", values.StrGlobMatch(text, case_sensitive=cs, prefix=pre, negate=neg)))
    for _, o in grid:
        hash(o)   # the string matchers cache their hash; take it for all of them so that equality is asked of like objects
    compare("string_matcher", grid, ["ab", "Ab", "AB", "aB", "abc", "cab", "a", "A", "b", "1", " ", "a1", "a b", "", "x\tb", "a."], lambda r, v: bool(r.match(v)))
    cm = [("ContainmentMatch(frozenset('xy'))", values.ContainmentMatch(frozenset(("x", "y")))), ("ContainmentMatch(frozenset('yx'))", values.ContainmentMatch(frozenset(("y", "x")))),
          ("ContainmentMatch(frozenset('xy'), match_all=True)", values.ContainmentMatch(frozenset(("x", "y")), match_all=True)),
          ("ContainmentMatch(frozenset('x'))", values.ContainmentMatch(frozenset(("x",)))), ("ContainmentMatch(frozenset('xy'), negate=True)", values.ContainmentMatch(frozenset(("x", "y")), negate=True))]
    compare("containment", cm, [(), ("x",), ("y",), ("x", "y"), ("z",), ("x", "z")], lambda r, v: r.match(v))
    # the query cache replayed on version restrictions: the answer for the second query must be the second query's own answer
    for (na, a), (nb, b) in itertools.permutations(vms[::5], 2):
        if str(a) == str(b):
            continue
        cases += 1

        class Db:
            def itermatch(self, restrict, sorter=None):
                return iter([p for p in pkgs if restrict.match(p)])
        cache = misc.caching_repo(Db(), iter)
        list(cache.itermatch(a))
        got = sorted(map(str, cache.itermatch(b)))
        want = sorted(str(p) for p in pkgs if b.match(p))
        if got != want:
            bad({"kind": "caching_repo", "first": na, "second": nb}, f"caching_repo asked {na} and then {nb} answers the second with {got[:4]}...; its own matches are {want[:4]}...")
            break
    return {"name": "C07.equal_variants.bounded_enumeration",
            "bound": f"all pairs of {len(vms)} VersionMatch and {len(inner)} _VersionMatch objects (6 operators x {len(vers)} spellings incl. trailing and leading zeros x revisions x negation), {len(aobj)} atoms, "
                     f"{len(trees)} restriction trees, {len(vals)} string matchers, {len(cm)} containment matchers: equal => same hash and same matches on {len(pkgs)} versions / {len(fake)} packages / sample values; "
                     "query-cache replay on ordered pairs of version restrictions", "cases": cases, "failures": fails}


def tasks():
    return [
        Task("C07.atom", t_atom, [("src/pkgcore/ebuild/atom.py", "atom.__init__")]),
        Task("C07._VersionMatch", t_versionmatch, [(F_RST, f"_VersionMatch.{n}") for n in ("__eq__", "_convert_ops", "__hash__", "match")]),
        Task("C07.values", t_values, [(F_VAL, "StrExactMatch.match"), (F_VAL, "StrGlobMatch.match"), (F_VAL, "ContainmentMatch.match")]),
        Task("C07.caching_repo", t_caching_repo, [("src/pkgcore/repository/misc.py", "caching_repo.match")]),
        Task("C07.equal_variants", None, [(F_RST, "_VersionMatch.__eq__"), (F_RST, "_VersionMatch.__hash__"), ("src/pkgcore/repository/misc.py", "caching_repo.match")], enumerate=enum_pairs),
        Task("C07.hash_lists", t_hash_attr_lists, [(F_PKG, "PackageRestriction.__hash__"), (F_PKG, "Conditional.__hash__"), (F_BOOL, "base.__hash__")]),
    ]


def replay_vm(model):
    from pkgcore.ebuild.restricts import _VersionMatch
    from pkgcore.ebuild.cpv import VersionedCPV
    ops = {(-1,): "<", (-1, 0): "<=", (0,): "=", (0, 1): ">=", (1,): ">"}

    def build(d):
        op = "~" if d["droprev"] else ops[tuple(d["vals"])]
        from pkgcore.ebuild.cpv import Revision
        return _VersionMatch(op, "1.0", None if d["droprev"] else Revision("1"), negate=d["negate"])
    a, b = build(model["a"]), build(model["b"])
    pkgs = [VersionedCPV(f"c/p-{v}") for v in ("0.9", "1.0", "1.0-r1", "1.0-r2", "1.1")]
    bad = []
    if a == b:
        if hash(a) != hash(b):
            bad.append("equal but hashes differ")
        for p in pkgs:
            if a.match(p) != b.match(p):
                bad.append(f"equal but {p.fullver} matched by only one")
    return bool(bad), f"{a!r} vs {b!r}: " + ("; ".join(bad) or "consistent")


def replay_atom(model):
    """probe: differently spelled equal versions under every operator, matched against packages of both spellings"""
    from pkgcore.ebuild.atom import atom
    from pkgcore.ebuild.cpv import VersionedCPV
    pkgs = [VersionedCPV(f"a/b-{v}") for v in ("1.0", "1.00", "1.01", "1.0-r1", "1.001", "2", "2-r0", "2-r1", "2-r01")]
    bad = []
    for op, glob in (("=", ""), ("=", "*"), ("~", ""), (">=", ""), ("<", "")):
        for x, y in (("1.0", "1.00"), ("2", "2-r0"), ("2-r1", "2-r01")):
            if op == "~" and "-r" in x + y:
                continue
            p, q = atom(f"{op}a/b-{x}{glob}"), atom(f"{op}a/b-{y}{glob}")
            if p == q:
                if hash(p) != hash(q):
                    bad.append(f"{p} == {q} but hashes differ")
                for k in pkgs:
                    if p.match(k) != q.match(k):
                        bad.append(f"{p} == {q} but only one matches {k.cpvstr}")
                        break
    return bool(bad), "; ".join(bad[:4]) or "equal atoms of the probe set match alike"


REPLAY = {"C07._VersionMatch": replay_vm, "C07.atom": replay_atom}
