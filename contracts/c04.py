"""C04 -- an atom matches a package exactly as PMS dependency semantics say (DESIGN.md section 4, C04)."""
import itertools
import z3
from pyvc.api import Task, call, Interp
from pyvc.models import Model, ModelHost
from pyvc.sym import (KBool, KSet, KStr, SBool, SObj, MutSet, And, Or, Not, Implies, OutOfSubset)

PROPERTY = "C04"
ATOM = "src/pkgcore/ebuild/atom.py"
REST = "src/pkgcore/ebuild/restricts.py"
VALS = "src/pkgcore/restrictions/values.py"
STR = z3.StringSort()

MANIFEST = {
    "text": "Proof that atom.restrictions assembles exactly one restriction per constraint the atom carries (package, category, "
            "repository if given, version operator or =* glob if versioned, slot, sub-slot whenever one is written, the USE "
            "restrictions) and never reads the blocker flags; that StaticUseDep and UseDepDefault, through the real "
            "ContainmentMatch.match / _UseDepDefaultContainment.match and for arbitrary flag sets, mean 'every + flag enabled and "
            "every - flag disabled', a flag outside IUSE taking its (+)/(-) default; _parse_nontransitive_use's sorting of tokens "
            "into the three default classes is a bounded stand-in (<= 2 tokens of every shape).  Whole atoms against packages "
            "(every operator incl. ~ and =*, slots, sub-slots, repositories, USE dependencies, blockers) are enumerated against a "
            "reference matcher.",
    "note": "Trusted: version comparison (C01), VersionMatch (C07), StrExactMatch, PackageRestriction attribute pulling, "
            "AndRestriction.match (C06); pyvc encoder.  The =* operator is a plain string prefix in the code: listed known finding.",
}
ASSUMPTIONS = ["=cat/pkg-V* matches when V is a prefix of the package version ending on a component boundary (next character absent, one of . _ -, or a digit/non-digit change), the reading of portage bug 560466"]


def S(name):
    return MutSet(KSet(KStr).fresh(name), frozen=True)


def t_use_default(ex):
    import pkgcore.ebuild.restricts as R
    P = "C04._UseDepDefaultContainment"
    negate, if_missing = bool(ex.choose(2)), bool(ex.choose(2))
    it = Interp(ex, label=P)
    vals, iuse, use = S("flags"), S("iuse_stripped"), S("use")
    ex.assume(Not(vals.val.is_empty()))
    # constructor: which ContainmentMatch parameters it settles on
    seen = {}

    def m_init(it_, self_, v, match_all=False, negate=False):
        seen.update(match_all=match_all, negate=negate)
        self_.fields.update(vals=vals, all=bool(match_all), negate=bool(negate))
    it.models[R.values.ContainmentMatch.__init__] = m_init
    me = SObj(R._UseDepDefaultContainment, {})
    out = call(it, it.target(REST, "_UseDepDefaultContainment.__init__"), me, if_missing, vals, negate) if negate else call(it, it.target(REST, "_UseDepDefaultContainment.__init__"), me, if_missing, vals)
    ex.oblige(f"{P}.__init__.raises.nothing", not out.raised, kind="exceptional-postcondition")
    if out.raised:
        return
    del it.models[R.values.ContainmentMatch.__init__]
    r = call(it, it.target(REST, "_UseDepDefaultContainment.match"), me, (iuse, use))
    ex.oblige(f"{P}.match.raises.nothing", not r.raised, kind="exceptional-postcondition")
    if r.raised:
        return
    present = vals.val.intersection(iuse.val)
    all_present = vals.val.issubset(iuse.val)
    if negate:   # [-flag(+/-)]: every listed flag disabled; a flag outside IUSE counts as its default
        spec = And(present.intersection(use.val).is_empty(), Or(all_present, not if_missing))
    else:
        spec = And(present.issubset(use.val), Or(all_present, if_missing))
    v = r.value
    vt = v if isinstance(v, SBool) else SBool(z3.BoolVal(bool(v)))
    ex.oblige(f"{P}.match.ensures.every_flag_has_the_wanted_state_missing_ones_their_default[{'-' if negate else '+'}flag({'+' if if_missing else '-'})]", vt == spec)


def t_use_classes(ex):
    """StaticUseDep / UseDepDefault: how the buckets become value restrictions, and what those mean through the real match code"""
    import pkgcore.ebuild.restricts as R
    which = ("StaticUseDep", "UseDepDefault")[ex.choose(2)]
    has_f, has_t = bool(ex.choose(2)), bool(ex.choose(2))
    if_missing = bool(ex.choose(2)) if which == "UseDepDefault" else None
    P = f"C04.{which}"
    it = Interp(ex, label=P)
    fset, tset, iuse, use = S("false_use"), S("true_use"), S("iuse_stripped"), S("use")
    ex.assume(And(Not(fset.val.is_empty()), Not(tset.val.is_empty())))
    made = []

    def mk(cls):
        def ctor(it_, *a, **k):
            o = ("vr", cls, a, k)
            made.append(o)
            return o
        return ctor
    it.models[R.values.ContainmentMatch] = mk("ContainmentMatch")
    it.models[R._UseDepDefaultContainment] = mk("_UseDepDefaultContainment")
    it.models[R.values.AndRestriction] = lambda it_, *a: ("and", a)
    top = {}
    parent = R.packages.PackageRestriction if which == "StaticUseDep" else R.packages.PackageRestrictionMulti

    def m_super_init(it_, self_, attr, v, **k):
        top.update(attr=attr, v=v)
    it.models[parent.__init__] = m_super_init
    me = SObj(getattr(R, which), {})
    # an empty bucket is an empty tuple, as _parse_nontransitive_use passes it
    fa, ta = (fset if has_f else ()), (tset if has_t else ())
    args = (fa, ta) if which == "StaticUseDep" else (if_missing, fa, ta)
    out = call(it, it.target(REST, f"{which}.__init__"), me, *args)
    ex.oblige(f"{P}.__init__.raises.nothing", not out.raised, kind="exceptional-postcondition")
    if out.raised:
        return
    ex.oblige(f"{P}.__init__.ensures.reads_the_use_state", top.get("attr") == ("use" if which == "StaticUseDep" else ("iuse_stripped", "use")))
    v = top.get("v")
    parts = list(v[1]) if isinstance(v, tuple) and v and v[0] == "and" else ([] if v is R.values.AlwaysTrue else [v])
    ex.oblige(f"{P}.__init__.ensures.one_value_restriction_per_non_empty_bucket", len(parts) == int(has_f) + int(has_t) and all(isinstance(p, tuple) and p and p[0] == "vr" for p in parts))
    if len(parts) != int(has_f) + int(has_t):
        return
    # meaning of the assembled restriction through the real match code
    result = SBool(z3.BoolVal(True))
    for p in parts:
        _, cls, a, k = p
        if cls == "ContainmentMatch":
            obj = SObj(R.values.ContainmentMatch, {"vals": a[0], "all": bool(k.get("match_all", False)), "negate": bool(k.get("negate", False))})
            r = call(it, it.target(VALS, "ContainmentMatch.match"), obj, use)
        else:
            neg = bool(k.get("negate", False))
            obj = SObj(R._UseDepDefaultContainment, {"vals": a[1], "all": (not neg), "negate": neg, "if_missing": bool(a[0])})
            # the constructor's choice of `all` is proved in C04._UseDepDefaultContainment; here its match
            r = call(it, it.target(REST, "_UseDepDefaultContainment.match"), obj, (iuse, use))
        if r.raised:
            ex.oblige(f"{P}.match.raises.nothing", False, kind="exceptional-postcondition")
            return
        rv = r.value if isinstance(r.value, SBool) else SBool(z3.BoolVal(bool(r.value)))
        result = And(result, rv)
    spec = SBool(z3.BoolVal(True))
    if which == "StaticUseDep":
        if has_f:
            spec = And(spec, fset.val.intersection(use.val).is_empty())
        if has_t:
            spec = And(spec, tset.val.issubset(use.val))
    else:
        if has_f:
            spec = And(spec, fset.val.intersection(iuse.val).intersection(use.val).is_empty(), Or(fset.val.issubset(iuse.val), not if_missing))
        if has_t:
            spec = And(spec, tset.val.intersection(iuse.val).issubset(use.val), Or(tset.val.issubset(iuse.val), if_missing))
    tag = f"{'-' if has_f else ''}{'+' if has_t else ''}" + ("" if if_missing is None else f",default={'on' if if_missing else 'off'}")
    ex.oblige(f"{P}.ensures.plus_flags_all_enabled_minus_flags_all_disabled[{tag or 'empty'}]", result == spec)


def t_restrictions(ex):
    import pkgcore.ebuild.atom as A
    P = "C04.atom.restrictions"
    it = Interp(ex, label=P)
    repo = (None, "gentoo")[ex.choose(2)]
    ver = ("none", "=*", ">=", "~")[ex.choose(4)]
    slot, subslot = ((None, None), ("0", None), ("0", "0"), ("0", "1"))[ex.choose(4)]
    use = (None, ("x", "-y(+)"))[ex.choose(2)]
    rec = lambda tag: (lambda it_, *a, **k: (tag, a, tuple(sorted(k.items()))))
    R = A.restricts
    for name in ("PackageDep", "CategoryDep", "RepositoryDep", "VersionMatch", "SlotDep", "SubSlotDep"):
        it.models[getattr(R, name)] = rec(name)
    it.models[A.packages.PackageRestriction] = rec("PackageRestriction")
    it.models[A.values.StrGlobMatch] = rec("StrGlobMatch")
    it.models[R._parse_nontransitive_use] = lambda it_, seq: [("use-restrictions", tuple(seq))]
    fields = {"package": "pkg", "category": "cat", "repo_id": repo, "slot": slot, "subslot": subslot, "use": use,
              "fullver": None if ver == "none" else "1.2-r3", "version": None if ver == "none" else "1.2", "revision": None if ver == "none" else 3,
              "op": "" if ver == "none" else ver, "negate_vers": False}
    me = SObj(A.atom, fields)   # no blocks / blocks_strongly field: reading them would raise
    out = call(it, it.target(ATOM, "atom.restrictions"), me)
    ex.oblige(f"{P}.raises.nothing", not out.raised, kind="exceptional-postcondition")
    if out.raised:
        return
    got = list(out.value)
    want = [("PackageDep", ("pkg",), ()), ("CategoryDep", ("cat",), ())]
    if repo:
        want.append(("RepositoryDep", ("gentoo",), ()))
    if ver == "=*":
        want.append(("PackageRestriction", ("fullver", ("StrGlobMatch", ("1.2-r3",), ())), ()))
    elif ver != "none":
        want.append(("VersionMatch", (ver, "1.2", 3), (("negate", False),)))
    if slot is not None:
        want.append(("SlotDep", ("0",), ()))
        if subslot is not None:
            want.append(("SubSlotDep", (subslot,), ()))
    if use is not None:
        want.append(("use-restrictions", use))
    key = lambda x: repr(x)
    ex.oblige(f"{P}.ensures.exactly_one_restriction_per_written_constraint[repo={repo}, version={ver}, slot={slot}/{subslot}, use={'yes' if use else 'no'}]",
              sorted(got, key=key) == sorted(want, key=key))


SHAPES = ("x", "-x", "x(+)", "-x(+)", "x(-)", "-x(-)")


def t_parse_use(ex):
    import pkgcore.ebuild.restricts as R
    P = "C04._parse_nontransitive_use"
    n = 1 + ex.choose(2)
    toks = []
    for i in range(n):
        toks.append(SHAPES[ex.choose(len(SHAPES))].replace("x", "xy"[i]))
    it = Interp(ex, label=P)
    it.models[R.StaticUseDep] = lambda it_, f, t: ("static", tuple(f), tuple(t))
    it.models[R.UseDepDefault] = lambda it_, d, f, t: ("default", bool(d), tuple(f), tuple(t))
    out = call(it, it.target(REST, "_parse_nontransitive_use"), tuple(toks))
    ex.oblige(f"{P}.raises.nothing", not out.raised, kind="exceptional-postcondition")
    if out.raised:
        return
    want = {}
    for t in toks:
        cls = ("default", True) if t.endswith("(+)") else ("default", False) if t.endswith("(-)") else ("static",)
        name = t[:-3] if t.endswith(")") else t
        b = want.setdefault(cls, ([], []))
        (b[0] if name[0] == "-" else b[1]).append(name.lstrip("-"))
    exp = sorted(repr(k + (tuple(f), tuple(t))) for k, (f, t) in want.items())
    ex.oblige(f"{P}.ensures.each_token_lands_in_its_default_class_and_sign_bucket", sorted(map(repr, out.value)) == exp)


# ------------------------------------------------------------------ bounded stand-in: whole atoms ----
VERSIONS = ["1", "1.0", "1.0-r1", "1.1", "10", "1.10", "1_alpha", "1_p1", "1_pre", "2", "1a", "01", "1.01"]


def ref_glob(written, v):
    if not v.startswith(written):
        return False
    nxt = v[len(written):len(written) + 1]
    return nxt in ("", ".", "_", "-") or written[-1].isdigit() != nxt.isdigit()


def ref_match(a, p, iuse, use):
    """reference matcher over the atom's parsed fields"""
    from pkgcore.ebuild.cpv import ver_cmp
    if a.category != p.category or a.package != p.package:
        return False
    if a.fullver is not None:
        if a.op == "=*":
            if not ref_glob(a.fullver, p.fullver):
                return False
        elif a.op == "~":
            if ver_cmp(p.version, None, a.version, None) != 0:
                return False
        else:
            c = ver_cmp(p.version, p.revision, a.version, a.revision)
            if not {"<": c < 0, "<=": c <= 0, "=": c == 0, ">=": c >= 0, ">": c > 0}[a.op]:
                return False
    if a.slot is not None and a.slot != p.slot:
        return False
    if a.subslot is not None and a.subslot != p.subslot:
        return False
    if a.repo_id is not None and a.repo_id != p.repo.repo_id:
        return False
    for tok in a.use or ():
        default = None
        if tok.endswith(")"):
            default = tok[-2] == "+"
            tok = tok[:-3]
        want = tok[0] != "-"
        f = tok.lstrip("-")
        state = (f in use) if (default is None or f in iuse) else default
        if state != want:
            return False
    return True


def enum_atoms(seed):
    from pkgcore.ebuild.atom import atom
    from pkgcore.test.misc import FakePkg, FakeRepo
    repos = {"gentoo": FakeRepo(repo_id="gentoo"), "other": FakeRepo(repo_id="other")}
    fails, cases = [], 0

    def note(a, p, got, want, **extra):
        kf = bool(extra.pop("glob", False))
        if sum(1 for f in fails if bool(f["model"].get("glob_prefix_not_on_a_component_boundary")) == kf) < (2 if kf else 5):
            fails.append({"model": dict({"atom": str(a), "package": p.cpvstr, "slot": f"{p.slot}/{p.subslot}", "repo": p.repo.repo_id, "glob_prefix_not_on_a_component_boundary": kf}, **extra),
                          "detail": f"atom {a} {'matches' if got else 'does not match'} {p.cpvstr}:{p.slot}/{p.subslot}::{p.repo.repo_id} {extra or ''}; PMS semantics say it {'does' if want else 'does not'}"})
    # versions x operators
    pkgs = [FakePkg(f"cat/pkg-{v}", repo=repos["gentoo"]) for v in VERSIONS]
    for op in ("<", "<=", "=", "~", ">=", ">", "=*"):
        for v in VERSIONS:
            if op == "~" and "-r" in v:
                continue
            s = f"=cat/pkg-{v}*" if op == "=*" else f"{op}cat/pkg-{v}"
            for form in (s, "!" + s, "!!" + s):
                a = atom(form)
                for p in pkgs:
                    cases += 1
                    got, want = bool(a.match(p)), ref_match(a, p, (), ())
                    if got != want:
                        note(a, p, got, want, glob=(op == "=*" and got and not want and p.fullver.startswith(a.fullver)))
    # slots, sub-slots, repositories, other names
    variants = [FakePkg(f"{c}/{n}-1", slot=sl, subslot=ss, repo=repos[r]) for c in ("cat", "dog") for n in ("pkg", "pkgx") for sl, ss in (("0", "0"), ("0", "1"), ("1", "1"), ("1", "0")) for r in repos]
    for s in ("cat/pkg", "cat/pkg:0", "cat/pkg:1", "cat/pkg:0/0", "cat/pkg:0/1", "cat/pkg:1/1", "cat/pkg:0/0=", "cat/pkg:0=", "cat/pkg:=", "cat/pkg:*", "cat/pkg::gentoo", "cat/pkg:0::other", "cat/pkg:0/1::gentoo", "!cat/pkg:1/1"):
        a = atom(s)
        for p in variants:
            cases += 1
            got, want = bool(a.match(p)), ref_match(a, p, (), ())
            if got != want:
                note(a, p, got, want)
    # USE dependencies
    flags = ("a", "b", "c")
    toks = [f"{sg}{f}{d}" for f in flags for sg in ("", "-") for d in ("", "(+)", "(-)")]
    states = [(iuse, use) for k in range(4) for iuse in itertools.combinations(flags, k) for j in range(len(iuse) + 1) for use in itertools.combinations(iuse, j)]
    for n in (1, 2):
        for combo in itertools.combinations(toks, n):
            if len({t.strip("-").split("(")[0] for t in combo}) < n:
                continue
            a = atom(f"cat/pkg[{','.join(combo)}]")
            for iuse, use in states:
                # a plain dependency on a flag the package does not have is an error in PMS: not part of the domain
                if any(not t.endswith(")") and t.lstrip("-") not in iuse for t in combo):
                    continue
                p = FakePkg("cat/pkg-1", iuse=iuse, use=use, repo=repos["gentoo"])
                cases += 1
                got, want = bool(a.match(p)), ref_match(a, p, set(iuse), set(use))
                if got != want:
                    note(a, p, got, want, iuse=list(iuse), use=list(use))
    return {"name": "C04.atoms.bounded_enumeration",
            "bound": f"7 operators (plain, weak and strong blocker form) x {len(VERSIONS)} versions against {len(VERSIONS)} packages; 14 slot / sub-slot / repository atoms against 32 package variants; "
                     f"every USE dependency list of <= 2 of {len(toks)} tokens against every IUSE/USE state over 3 flags", "cases": cases, "failures": fails}


def tasks():
    return [
        Task("C04._UseDepDefaultContainment", t_use_default, [(REST, "_UseDepDefaultContainment.__init__"), (REST, "_UseDepDefaultContainment.match"), (VALS, "ContainmentMatch.match")]),
        Task("C04.use_classes", t_use_classes, [(REST, "StaticUseDep.__init__"), (REST, "UseDepDefault.__init__"), (VALS, "ContainmentMatch.match")]),
        Task("C04.atom.restrictions", t_restrictions, [(ATOM, "atom.restrictions")]),
        Task("C04._parse_nontransitive_use", t_parse_use, [(REST, "_parse_nontransitive_use")], bounded={"tokens": 2, "note": "every sign/default shape"}),
        Task("C04.atoms", None, [(ATOM, "atom.restrictions"), (VALS, "StrGlobMatch.match")], enumerate=enum_atoms),
    ]


REPLAY = {}
WITNESSES = {"glob_prefix_not_on_a_component_boundary": lambda m: bool(m.get("glob_prefix_not_on_a_component_boundary"))}
