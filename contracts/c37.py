"""C37 -- Bugzilla searches keep their meaning when combined, rendered and batched (DESIGN.md section 4, C37)."""
import itertools
import random
import urllib.parse
import z3
from pyvc.api import Task, call, Interp, LoopSpec, Contract
from pyvc.models import Model
from pyvc import models, theory
from pyvc.sym import (KStr, KInt, KBool, KRef, KSeq, SBool, SInt, SStr, SSeq, SObj, And, Or, Not, Implies, fresh_name, concrete_of)

PROPERTY = "C37"
FILE = "src/pkgcore/bugzilla/query.py"
Chart = KRef("Chart")

MANIFEST = {
    "text": "Unbounded proof of the slot arithmetic: ChartGroup.render with any number of children returns slot + 2 + sum of "
            "the children's sizes and closes the group at the last slot of its own range, _render advances by exactly the size of "
            "its chart (1 for a criterion), BugQuery.params numbers consecutive charts from slot 1 in disjoint consecutive ranges "
            "(loop invariants over a recursively defined SUM of sizes) -- hence every condition gets a unique slot and OP/CP are "
            "balanced; Criterion.render puts all its parameters on its own slot; `a & b` matches exactly the bugs both match "
            "(simple keys disjoint; see known finding KF-C37-1 for a shared key).  batches() and the full render/parse round trip "
            "are a bounded stand-in (exhaustive small queries, several budgets).",
    "note": "Trusted: Bugzilla's search semantics as transcribed (simple key: value in the listed set; charts AND-ed; group "
            "markers OP/CP scope a join); recursive calls of _render/ChartGroup.render are replaced by their contracts; "
            "urllib.parse.urlencode; pyvc encoder.",
}
ASSUMPTIONS = ["Bugzilla semantics: values of one simple key are alternatives (OR), different keys and all charts are AND-ed",
               "size(criterion) = 1, size(group) = 2 + sum of children's sizes (the property's 'unique slot' layout)"]


def size_f():
    return theory.ufun("chart_size", Chart.sort, z3.IntSort())


class Marker:
    """rendered parameters of one chart (opaque), remembered with the slot it was rendered at"""

    def __init__(self, chart, slot):
        self.chart, self.slot = chart, slot

    def __repr__(self):
        return f"<params of {self.chart} @ {self.slot}>"


def render_contract(ex, calls, on_call=None):
    size = size_f()

    def post(it, chart, slot):
        ex.assume(SBool(size(chart.t) >= 1))
        calls.append((chart, slot))
        if on_call is not None:
            on_call(it, chart, slot)   # obligations about the slot a child is rendered at (checked at the call site)
        return ([Marker(chart, slot)], slot + SInt(size(chart.t)))
    return Contract("query._render", post)


def sum_fun(name, kids, n):
    size = size_f()
    SUM = theory.ufun(name, z3.IntSort(), z3.IntSort())
    theory._add_axiom((name, 0), SUM(0) == 0)

    def unfold(k):
        kt = k.t if isinstance(k, SInt) else z3.IntVal(k)
        theory._add_axiom((name, z3.simplify(kt).get_id()),
                          z3.Implies(z3.And(kt >= 0, kt < n), z3.And(SUM(kt + 1) == SUM(kt) + size(kids.t[kt]), size(kids.t[kt]) >= 1)))
    return SUM, unfold


def t_group_render(ex):
    import pkgcore.bugzilla.query as Q
    from pkgcore.bugzilla.enums import Join
    P = "C37.ChartGroup.render"
    kids = KSeq(Chart).fresh("children")
    n = z3.Length(kids.t)
    slot0 = KInt.fresh("slot")
    ex.assume(slot0 >= 1)
    SUM, unfold = sum_fun("SUM_children", kids, n)
    calls = []

    def inv(L, k):
        unfold(k)
        kt = k.t if isinstance(k, SInt) else z3.IntVal(k)
        s = L.slot
        return SBool((s.t if isinstance(s, SInt) else z3.IntVal(s)) == slot0.t + 1 + SUM(kt))
    def on_call(it_, chart, slot):
        k = it_.loop_k.get(("ChartGroup.render", 0))
        s_t = slot.t if isinstance(slot, SInt) else z3.IntVal(slot)
        ex.oblige(f"{P}.ensures.child_rendered_at_next_free_slot", k is not None and SBool(s_t == slot0.t + 1 + SUM(k.t)))
    loops = {("ChartGroup.render", 0): LoopSpec(inv, havoc={"params": lambda it: ["<parameters of the children rendered so far>"]}, mutates=["params"])}
    it = Interp(ex, label=P, loops=loops, contracts={Q._render: render_contract(ex, calls, on_call)})
    me = SObj(Q.ChartGroup, {"join": Join.OR, "children": kids})
    out = call(it, it.target(FILE, "ChartGroup.render"), me, slot0)
    ex.oblige(f"{P}.raises.nothing", not out.raised, kind="exceptional-postcondition")
    if out.raised:
        return
    params, end = out.value
    ex.oblige(f"{P}.ensures.returns_slot_plus_size", SBool(end.t == slot0.t + 2 + SUM(n)))
    last = params[-1]
    ok = isinstance(last, tuple) and len(last) == 2 and last[1] == "CP"
    ex.oblige(f"{P}.ensures.closes_with_CP", ok)
    if ok:
        from pyvc.sym import str_of_int
        want = "f" + str_of_int(end - 1)
        ex.oblige(f"{P}.ensures.CP_on_last_slot_of_the_group", models.eq(it, last[0], want))


def t_group_head(ex):
    """the opening parameters: f<slot>=OP, j<slot>=<join> (childless group: concrete spine)"""
    import pkgcore.bugzilla.query as Q
    from pkgcore.bugzilla.enums import Join
    P = "C37.ChartGroup.render"
    slot0 = KInt.fresh("slot")
    ex.assume(slot0 >= 1)
    it = Interp(ex, label=P, contracts={Q._render: render_contract(ex, [])})
    join = (Join.OR, Join.AND_G if hasattr(Join, "AND_G") else Join.OR)[ex.choose(2)]
    out = call(it, it.target(FILE, "ChartGroup.render"), SObj(Q.ChartGroup, {"join": join, "children": ()}), slot0)
    if out.raised:
        ex.oblige(f"{P}.raises.nothing", False, kind="exceptional-postcondition")
        return
    params, end = out.value
    sl = z3.IntToStr(slot0.t)
    ex.oblige(f"{P}.ensures.opens_with_OP_and_join_on_its_slot",
              len(params) == 3 and And(models.eq(it, params[0][0], SStr(z3.Concat(z3.StringVal("f"), sl))), params[0][1] == "OP",
                                       models.eq(it, params[1][0], SStr(z3.Concat(z3.StringVal("j"), sl))), params[1][1] == str(join)))
    ex.oblige(f"{P}.ensures.empty_group_takes_two_slots", SBool(end.t == slot0.t + 2))


def t_render_dispatch(ex):
    import pkgcore.bugzilla.query as Q
    from pkgcore.bugzilla.enums import ChartOp
    P = "C37._render"
    slot0 = KInt.fresh("slot")
    ex.assume(slot0 >= 1)
    it = Interp(ex, label=P)
    if ex.choose(2) == 0:
        # a criterion occupies exactly one slot, all its parameters on it
        nv = ex.choose(3)
        vals = tuple(KStr.fresh(f"v{i}") for i in range(nv))
        neg = KBool.fresh("negate")
        c = SObj(Q.Criterion, {"field": KStr.fresh("field"), "op": list(ChartOp)[0], "values": vals, "negate": neg, "splittable": False})
        out = call(it, it.target(FILE, "_render"), c, slot0)
        ex.oblige(f"{P}.criterion.raises.nothing", not out.raised, kind="exceptional-postcondition")
        if out.raised:
            return
        params, end = out.value
        ex.oblige(f"{P}.criterion.takes_one_slot", SBool(end.t == slot0.t + 1))
        sl = z3.IntToStr(slot0.t)
        keys_ok = []
        for kname, _v in params:
            keys_ok.append(Or(*[models.eq(it, kname, SStr(z3.Concat(z3.StringVal(p), sl))) for p in "fovn"]))
        ex.oblige(f"{P}.criterion.every_parameter_on_its_slot", And(*keys_ok) if keys_ok else False)
        ex.oblige(f"{P}.criterion.field_op_values_negate_rendered",
                  len(params) >= 2 + nv and params[0][1] is c.fields["field"] and all(params[2 + i][1] is vals[i] for i in range(nv)))
    else:
        # a group is rendered by ChartGroup.render (its contract): _render passes the result through
        grp_result = ([Marker("group", slot0)], slot0 + KInt.fresh("group_size"))
        g = SObj(Q.ChartGroup, {"join": None, "children": ()})
        it.contracts[Q.ChartGroup.render] = Contract("ChartGroup.render", lambda it_, self_, s: grp_result)
        out = call(it, it.target(FILE, "_render"), g, slot0)
        ex.oblige(f"{P}.group.raises.nothing", not out.raised, kind="exceptional-postcondition")
        if not out.raised:
            ex.oblige(f"{P}.group.delegates_to_group_render", out.value is grp_result or (out.value[0] is grp_result[0] and out.value[1] is grp_result[1]))


def t_params(ex):
    """BugQuery.params: charts are numbered from slot 1 in consecutive disjoint ranges"""
    import pkgcore.bugzilla.query as Q
    P = "C37.BugQuery.params"
    charts = KSeq(Chart).fresh("charts")
    n = z3.Length(charts.t)
    SUM, unfold = sum_fun("SUM_charts", charts, n)
    calls = []

    def inv(L, k):
        unfold(k)
        kt = k.t if isinstance(k, SInt) else z3.IntVal(k)
        s = L.slot
        return SBool((s.t if isinstance(s, SInt) else z3.IntVal(s)) == 1 + SUM(kt))
    def on_call(it_, chart, slot):
        k = it_.loop_k.get(("BugQuery.params", 1))
        s_t = slot.t if isinstance(slot, SInt) else z3.IntVal(slot)
        ex.oblige(f"{P}.ensures.chart_k_starts_after_the_previous_ones", k is not None and SBool(s_t == 1 + SUM(k.t)))
    loops = {("BugQuery.params", 1): LoopSpec(inv, havoc={"params": lambda it: ["<parameters rendered so far>"]}, mutates=["params"])}
    it = Interp(ex, label=P, loops=loops, contracts={Q._render: render_contract(ex, calls, on_call)})
    q = SObj(Q.BugQuery, {"simple": (), "charts": charts, "limit": None, "offset": None, "order": None})
    out = call(it, it.target(FILE, "BugQuery.params"), q)
    ex.oblige(f"{P}.raises.nothing", not out.raised, kind="exceptional-postcondition")
    if out.raised:
        return
    ex.cover("params")


def t_and(ex):
    """(a & b) matches a bug iff a and b both do"""
    import pkgcore.bugzilla.query as Q
    P = "C37.BugQuery.__and__"
    it = Interp(ex, label=P)
    same_key = ex.choose(2) == 1
    Val = KRef("FieldValue")
    fld = theory.ufun("bug_field", KRef("Bug").sort, z3.StringSort(), Val.sort)
    holds = theory.ufun("chart_holds", Chart.sort, KRef("Bug").sort, z3.BoolSort())
    bug = KRef("Bug").fresh("bug")
    va, vb = KSeq(Val).fresh("values_a"), KSeq(Val).fresh("values_b")
    ka, kb = "bug_status", ("bug_status" if same_key else "product")
    ca, cb = KSeq(Chart).fresh("charts_a"), KSeq(Chart).fresh("charts_b")
    a = SObj(Q.BugQuery, {"simple": ((ka, va),), "charts": ca, "limit": None, "offset": None, "order": None})
    b = SObj(Q.BugQuery, {"simple": ((kb, vb),), "charts": cb, "limit": None, "offset": None, "order": None})
    ex.inputs.update({"same_simple_key": same_key, "values_a": va, "values_b": vb})
    out = call(it, it.target(FILE, "BugQuery.__and__"), a, b)
    ex.oblige(f"{P}.raises.nothing", not out.raised, kind="exceptional-postcondition")
    if out.raised:
        return
    r = out.value

    def matches_simple(simple):
        parts = []
        for key, values in simple:
            vs = values if isinstance(values, SSeq) else None
            if vs is None:
                return None
            parts.append(vs.contains(Val.wrap(fld(bug.t, z3.StringVal(key)))))
        return And(*parts)

    def matches_charts(cs):
        i = z3.Int(fresh_name("ci"))
        return SBool(z3.ForAll([i], z3.Implies(z3.And(i >= 0, i < z3.Length(cs.t)), holds(cs.t[i], bug.t))))
    ok = isinstance(r, SObj) and isinstance(r.fields.get("charts"), SSeq)
    ex.oblige(f"{P}.ensures.result_is_a_query", ok)
    if not ok:
        return
    ms = matches_simple(r.fields["simple"])
    ex.oblige(f"{P}.ensures.simple_constraints_are_the_conjunction",
              ms is not None and (ms == And(matches_simple(a.fields["simple"]), matches_simple(b.fields["simple"]))),
              known=[("KF-C37-1", same_key)])
    ex.oblige(f"{P}.ensures.charts_are_concatenated", models.eq(it, r.fields["charts"], ca + cb))


# ------------------------------------------------------------ bounded stand-ins ----
def _parse(params):
    """reference reader of Bugzilla's boolean chart parameters -> (simple pairs, tree, slots used)"""
    simple, by_slot = [], {}
    for k, v in params:
        if len(k) > 1 and k[0] in "fovnj" and k[1:].isdigit():
            by_slot.setdefault(int(k[1:]), []).append((k[0], v))
        else:
            simple.append((k, v))
    slots = sorted(by_slot)
    pos = 0

    def node():
        nonlocal pos
        s = slots[pos]
        d = {}
        for a, v in by_slot[s]:
            d.setdefault(a, []).append(v)
        pos += 1
        if d.get("f") == ["OP"]:
            kids = []
            while pos < len(slots) and dict((a, v) for a, v in by_slot[slots[pos]]).get("f") != "CP":
                kids.append(node())
            if pos >= len(slots):
                raise ValueError("unbalanced OP")
            pos += 1
            return ("group", d.get("j", [None])[0], tuple(kids))
        if d.get("f") == ["CP"]:
            raise ValueError("unbalanced CP")
        return ("crit", d["f"][0], d["o"][0], tuple(d.get("v", ())), "n" in d)
    out = []
    while pos < len(slots):
        out.append(node())
    return simple, tuple(out), slots


def _shape(chart):
    from pkgcore.bugzilla.query import ChartGroup
    if isinstance(chart, ChartGroup):
        return ("group", str(chart.join), tuple(_shape(c) for c in chart.children))
    return ("crit", chart.field, str(chart.op), tuple(chart.values), bool(chart.negate))


def enum_render_and_batches(seed):
    import random
    from pkgcore.bugzilla.query import BugQuery, Criterion, ChartGroup
    from pkgcore.bugzilla.enums import ChartOp, Join
    rnd = random.Random(seed)
    ops = list(ChartOp)[:3]
    crits = [Criterion("keywords", ops[0], ("a",)), Criterion("tag", ops[1], ("x", "y"), negate=True), Criterion("cc", ops[2], ())]

    def tree(depth):
        if depth == 0 or rnd.random() < 0.4:
            return rnd.choice(crits)
        return ChartGroup(rnd.choice(list(Join)), tuple(tree(depth - 1) for _ in range(rnd.randint(0, 3))))
    cases, fails = 0, []

    def bad(model, detail):
        if len(fails) < 4:
            fails.append({"model": model, "detail": detail})
    for _ in range(400):
        charts = tuple(tree(3) for _ in range(rnd.randint(0, 4)))
        q = BugQuery(simple=(("product", ("p1", "p2")),), charts=charts)
        cases += 1
        params = q.params()
        try:
            simple, parsed, slots = _parse(params)
        except Exception as e:
            bad({"charts": repr(charts)}, f"rendered parameters of {charts!r} do not parse as balanced charts: {e!r}")
            continue
        if slots != list(range(1, len(slots) + 1)):
            bad({"charts": repr(charts)}, f"slots are not unique consecutive numbers from 1: {slots}")
        if parsed != tuple(_shape(c) for c in charts):
            bad({"charts": repr(charts)}, f"rendered parameters of {charts!r} read back as {parsed!r}")
    # batches: partition in order, other parameters unchanged, budget kept when a single value fits
    for n_before in (0, 3, 7, 9, 12):
        group = BugQuery.any_of(*[BugQuery.keywords(f"k{i}") for i in range(n_before)]) if n_before else BugQuery()
        for count, vlen in ((1, 10), (5, 40), (60, 25), (200, 12), (400, -1)):
            values = [f"cat-{i:03d}/pkg-" + "x" * vlen for i in range(count)] if vlen >= 0 else [str(i) for i in range(count)]
            # the third form: a hand-built splittable criterion whose field name is shorter than the v<slot> parameter its values are sent under
            for mk in (lambda: group & BugQuery.package_list_any(values), lambda: BugQuery.ids(range(1000, 1000 + count)) & group,
                       lambda: group & BugQuery(charts=(Criterion("x", ops[0], tuple(values), splittable=True),))):
                q = mk()
                axis_vals = [str(v) for v in (values if q.charts and any(getattr(c, "splittable", False) for c in q.charts) else range(1000, 1000 + count))]
                for budget in (700, 2500, 6000):
                    cases += 1
                    bs = list(q.batches(base_length=40, max_length=budget))
                    got = []
                    fixed = None
                    for b in bs:
                        ps = b.params()
                        is_axis = lambda k, v: v in set(axis_vals) and (k == "id" or k[0] == "v")
                        vs = [v for k, v in ps if is_axis(k, v)]
                        rest = [(k, v) for k, v in ps if not is_axis(k, v)]
                        got.extend(vs)
                        if fixed is None:
                            fixed = rest
                        elif rest != fixed:
                            bad({"n_before": n_before, "count": count, "budget": budget}, "a batch changes parameters other than the split values")
                        enc = len(urllib.parse.urlencode(ps))
                        single_fits = all(len(urllib.parse.urlencode(fixed + [(k, v) for k, v in ps if v == x][:1])) + 40 <= budget for x in vs[:1])
                        if single_fits and enc + 40 > budget and len(vs) > 1:
                            bad({"n_before": n_before, "count": count, "value_len": vlen, "budget": budget},
                                f"batch of {len(vs)} values encodes to {enc} + 40 > budget {budget} although a single value fits "
                                f"({n_before} conditions precede the split criterion)")
                    if got != axis_vals:
                        bad({"n_before": n_before, "count": count, "budget": budget}, "batches do not partition the values in their original order")
    return {"name": "C37.render_and_batches.bounded_enumeration",
            "bound": "400 random chart forests (depth <= 3, <= 3 children) rendered and read back; batches for 0-12 preceding conditions x 5 value sets x 3 budgets x 3 split axes (package list, ids, a hand-built criterion with a one-letter field name)",
            "cases": cases, "failures": fails}


def enum_and(seed):
    """`a & b` on real queries built from one or two plain constraints over 3 fields and a 3-letter value alphabet (the same value under
    different fields included), judged on every bug of the 27-bug universe: a bug satisfies a plain constraint when its field value is
    one of the listed values"""
    import pkgcore.bugzilla.query as Q
    rnd = random.Random(seed + 37)
    fields = ("bug_status", "product", "resolution")
    alpha = ("A", "B", "C")
    subsets = [tuple(c) for n in (1, 2) for c in itertools.permutations(alpha, n)]
    singles = [((f, vs),) for f in fields for vs in subsets]
    doubles = [(x[0], y[0]) for x, y in itertools.combinations(singles, 2) if x[0][0] != y[0][0]]
    queries = singles + rnd.sample(doubles, 40)
    bugs = [dict(zip(fields, vals)) for vals in itertools.product(alpha, repeat=3)]

    def sat(simple, bug):
        return all(bug[k] in vs for k, vs in simple)
    fails, cases = [], 0
    for sa, sb in itertools.product(queries, repeat=2):
        cases += 1
        a, b = Q.BugQuery(simple=sa), Q.BugQuery(simple=sb)
        try:
            r = a & b
            rs = tuple(r.simple)
        except Exception as e:
            if len(fails) < 6:
                fails.append({"model": {"a": sa, "b": sb}, "detail": f"BugQuery(simple={sa}) & BugQuery(simple={sb}) raised {type(e).__name__}: {e}"})
            continue
        bad = next((bug for bug in bugs if sat(rs, bug) != (sat(sa, bug) and sat(sb, bug))), None)
        if bad is not None:
            # KF-C37-1: the same field constrained on both sides with different value lists
            da, db = dict(sa), dict(sb)
            same_key = any(k in db and set(da[k]) != set(db[k]) for k in da)
            if sum(1 for f in fails if f["model"]["same_simple_key"] == same_key) < 3:
                fails.append({"model": {"a": sa, "b": sb, "same_simple_key": same_key},
                              "detail": f"BugQuery(simple={sa}) & BugQuery(simple={sb}) has simple={rs}: the bug {bad} {'satisfies' if sat(rs, bad) else 'does not satisfy'} it, "
                                        f"but {'does not satisfy' if sat(rs, bad) else 'satisfies'} both operands"})
    return {"name": "C37.and.bounded_enumeration", "bound": f"all ordered pairs of {len(queries)} queries (every one-field constraint over 3 fields x 9 value lists of <= 2 of 3 values, 40 two-field ones), "
            "27-bug universe", "cases": cases, "failures": fails}


def enum_any_of(seed):
    """any_of over operands that are single conditions, conjunctions (a & b) and any_of groups themselves, and & of such groups: the rendered
    parameters, read by the reference chart reader and evaluated on every bug of a small universe (keywords over {A, B}, tags over {t}),
    must mean the disjunction of the operands' meanings (conjunction for &)"""
    from pkgcore.bugzilla.query import BugQuery
    bugs = [{"keywords": set(k), "tag": set(t)} for k in ((), ("A",), ("B",), ("A", "B")) for t in ((), ("t",))]
    atoms = [(BugQuery.keywords("A"), lambda b: "A" in b["keywords"], "kw(A)"), (BugQuery.keywords("B"), lambda b: "B" in b["keywords"], "kw(B)"),
             (BugQuery.keywords("A", "B"), lambda b: bool(b["keywords"]), "kw(A B)"), (BugQuery.without_tags("t"), lambda b: "t" not in b["tag"], "no-tag(t)")]

    def crit(node, b):
        _k, field, op, values, neg = node
        if op == "anywords":
            r = any(v in b[field] for v in values)
        elif op == "nowordssubstr":
            r = not any(v in x for v in values for x in b[field])
        else:
            raise ValueError(op)
        return r != neg

    def ev(node, b):
        if node[0] == "crit":
            return crit(node, b)
        kids = [ev(k, b) for k in node[2]]
        return any(kids) if node[1] == "OR" else all(kids)
    conj = [(x[0] & y[0], (lambda b, x=x, y=y: x[1](b) and y[1](b)), f"({x[2]} & {y[2]})") for x, y in itertools.permutations(atoms, 2)]
    level1 = atoms + conj
    cases, fails = 0, []

    def judge(q, meaning, text):
        nonlocal cases
        cases += 1
        try:
            simple, forest, _slots = _parse(q.params())
            bad = next((b for b in bugs if all(ev(n, b) for n in forest) != meaning(b)), None)
        except Exception as e:
            if len(fails) < 4:
                fails.append({"model": {"query": text}, "detail": f"{text}: {type(e).__name__}: {e}"})
            return
        if (bad is not None or simple) and len(fails) < 4:
            fails.append({"model": {"query": text}, "detail": f"{text} renders {q.params()}: a bug with keywords {sorted(bad['keywords'])} and tags {sorted(bad['tag'])} "
                                                            f"{'matches' if not meaning(bad) else 'does not match'} the rendered search but {'does not satisfy' if not meaning(bad) else 'satisfies'} the operands' disjunction"
                          if bad is not None else f"{text} renders simple parameters {simple}"})
    groups = []
    for x, y in itertools.permutations(level1, 2):
        g = (BugQuery.any_of(x[0], y[0]), (lambda b, x=x, y=y: x[1](b) or y[1](b)), f"any_of({x[2]}, {y[2]})")
        groups.append(g)
        judge(*g)
    # operands that are conjunctions with an any_of group inside them: a & any_of(b, c) stays a AND (b OR c) under the outer OR
    mixed = [(x[0] & g[0], (lambda b, x=x, g=g: x[1](b) and g[1](b)), f"({x[2]} & {g[2]})") for x in atoms for g in groups[:40:3]] + \
            [(g[0] & x[0], (lambda b, x=x, g=g: x[1](b) and g[1](b)), f"({g[2]} & {x[2]})") for x in atoms for g in groups[1:40:5]]
    for m_ in mixed:
        judge(*m_)
        for y in atoms:
            judge(BugQuery.any_of(m_[0], y[0]), (lambda b, m_=m_, y=y: m_[1](b) or y[1](b)), f"any_of({m_[2]}, {y[2]})")
            judge(BugQuery.any_of(y[0], m_[0]), (lambda b, m_=m_, y=y: m_[1](b) or y[1](b)), f"any_of({y[2]}, {m_[2]})")
    rnd = random.Random(seed + 3737)
    for _ in range(300):
        ops = rnd.sample(level1 + groups + mixed, rnd.choice((1, 2, 3)))
        g = (BugQuery.any_of(*[o[0] for o in ops]), (lambda b, ops=ops: any(o[1](b) for o in ops)), "any_of(" + ", ".join(o[2] for o in ops) + ")")
        judge(*g)
        other = rnd.choice(level1 + groups)
        judge(g[0] & other[0], (lambda b, g=g, other=other: g[1](b) and other[1](b)), f"{g[2]} & {other[2]}")
    return {"name": "C37.any_of.bounded_enumeration", "bound": "any_of over every ordered pair of 16 operands (4 single conditions, their 12 two-condition conjunctions), conjunctions of a condition with an any_of group as operands (in both positions), 300 seeded any_of of 1..3 operands drawn from those and from "
            "any_of groups, each also combined with & ; rendered parameters evaluated on an 8-bug universe by the reference chart reader", "cases": cases, "failures": fails}


def tasks():
    return [
        Task("C37.ChartGroup.render", t_group_render, [(FILE, "ChartGroup.render")]),
        Task("C37.ChartGroup.render.head", t_group_head, [(FILE, "ChartGroup.render")]),
        Task("C37._render", t_render_dispatch, [(FILE, "_render"), (FILE, "Criterion.render")]),
        Task("C37.BugQuery.params", t_params, [(FILE, "BugQuery.params")]),
        Task("C37.BugQuery.__and__", t_and, [(FILE, "BugQuery.__and__"), (FILE, "_merge_simple")], enumerate=enum_and),
        Task("C37.render_and_batches", None, [(FILE, "BugQuery.batches"), (FILE, "BugQuery._split_axis")], enumerate=enum_render_and_batches),
        Task("C37.any_of", None, [(FILE, "BugQuery.any_of")], enumerate=enum_any_of),
    ]


def replay_and(model):
    from pkgcore.bugzilla.query import BugQuery
    q = BugQuery.status("A") & BugQuery.status("B")
    vals = [v for k, v in q.params() if k == "bug_status"]
    return (model.get("same_simple_key") and len(vals) == 2), (f"BugQuery.status('A') & BugQuery.status('B') renders bug_status={vals}: "
                                                                "Bugzilla reads that as A OR B, the conjunction is empty")


REPLAY = {"C37.BugQuery.__and__": replay_and}
WITNESSES = {"same_simple_key": lambda m: bool(m.get("same_simple_key"))}
