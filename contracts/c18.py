"""C18 -- merging places exactly the package contents on the live filesystem (DESIGN.md section 4, C18)."""
import errno
import itertools
import os
import random
import z3
from pyvc.api import Task, call, Interp
from pyvc.sym import SBool, SInt, SObj, And, Or, Not, OutOfSubset
from contracts import fs_model as M

PROPERTY = "C18"
OPS = "src/pkgcore/fs/ops.py"

MANIFEST = {
    "text": "Effect-trace contracts on fs.ops over a ghost operating system (every os call the functions make is recorded, queries are "
            "answered from an explicit pre-state): copyfile, for every entry type (file, symlink, fifo, device), every pre-state "
            "(nothing there with or without a parent directory, an existing file / symlink / directory) and arbitrary mode / owner / "
            "mtime values present or absent, creates the entry of that type at the location (or at location#new followed by one "
            "rename onto the location when something was there), applies owner, then mode and mtime (a symlink's own mtime without following it, never a mode to a "
            "symlink), touches no other path than the location, location#new and the missing parent, and refuses an existing "
            "directory; ensure_perms applies exactly the attributes that differ and keeps an existing directory's mode; mkdir creates "
            "with the recorded mode (0777 if none) then enforces attributes; do_link only links entry to entry, falls back through "
            "location#new + rename when the target exists, and answers False (copy instead) exactly for cross-device errors.  "
            "merge_contents as a whole (directories first, hardlink groups, offset, pre-existing roots) is a bounded stand-in: a native "
            "enumeration merges random trees into random roots in a scratch directory and compares snapshots.",
    "note": "Trusted: the ghost os model (one effect per os call; rename is atomic), data.transfer_to_path writes the whole file to the "
            "path it is given, snakeoil ensure_dirs / unlink_if_exists, the cp -Rp fallback; pyvc encoder.",
}
ASSUMPTIONS = ["os.rename replaces its destination atomically", "data.transfer_to_path(path) creates/overwrites exactly path"]

KINDS = ("file", "sym", "fifo", "dev")
LOC = "/root/dir/entry"
NEW = LOC + "#new"


def t_copyfile(ex):
    kind = KINDS[ex.choose(4)]
    pre = ("absent", "absent_no_parent_mkdirs", "absent_no_parent", "file", "sym", "dir")[ex.choose(6)]
    present = {a: bool(ex.choose(2)) for a in ("mode", "uid", "gid", "mtime")}
    P = f"C18.copyfile[{kind} over {pre}]"
    it = Interp(ex, label=P)
    tr = M.Trace()
    obj = M.fs_obj(kind, LOC, ex, present=present)
    if kind == "file":
        obj.fields["data"].trace = tr
    existing = None if pre.startswith("absent") else M.fs_obj(pre, LOC, ex, tag="existing")
    M.install(it, ex, tr, existing=existing, parent_exists=(pre == "absent"))
    out = call(it, it.target(OPS, "copyfile"), obj, mkdirs=(pre == "absent_no_parent_mkdirs"))
    from pkgcore.fs import ops
    if pre == "dir":
        ex.oblige(f"{P}.raises.CannotOverwrite_and_touches_nothing", out.raised_cls(ops.CannotOverwrite) and tr.effects == [], kind="exceptional-postcondition")
        return
    if pre == "absent_no_parent":
        ex.oblige(f"{P}.raises.the_lookup_error_and_touches_nothing", out.raised_cls(OSError) and tr.effects == [], kind="exceptional-postcondition")
        return
    ex.oblige(f"{P}.raises.nothing", not out.raised, kind="exceptional-postcondition")
    if out.raised:
        return
    existed = existing is not None
    fp = NEW if existed else LOC
    eff = list(tr.effects)
    want = []
    if pre == "absent_no_parent_mkdirs":
        want.append(("ensure_dirs", os.path.dirname(LOC)))
    if existed:
        want.append(("unlink_if_exists", fp))   # a leftover '#new' of an interrupted merge is cleared first: the data transfer neither truncates nor refuses a symlink
    create = {"file": ("write_file", fp), "sym": ("symlink", fp), "fifo": ("mkfifo", fp), "dev": ("mknod", fp)}[kind]
    want.append(create)
    shape = [(e[0], e[1]) for e in eff]
    perms = []
    if present["uid"] or present["gid"]:
        perms.append(("lchown", fp))
    if kind != "sym":
        if present["mode"]:
            perms.append(("chmod", fp))
        if present["mtime"]:
            perms.append(("utime", fp))
    elif present["mtime"]:
        perms.append(("lutime", fp))   # a symlink's own time, set without following it; it has no mode of its own
    want += perms
    if existed:
        want.append(("rename", fp))
    ex.oblige(f"{P}.ensures.clears_a_stale_sibling_creates_then_owner_mode_mtime_then_one_rename_if_something_was_there[{'+'.join(a for a in present if present[a]) or 'no attributes'}]", shape == want)
    ex.oblige(f"{P}.frame.only_the_location_its_staging_name_and_the_missing_parent", set(tr.paths()) <= {LOC, NEW, os.path.dirname(LOC)})
    if existed:
        ex.oblige(f"{P}.ensures.rename_goes_from_the_staging_name_onto_the_location", eff[-1] == ("rename", NEW, LOC))
    # values: the recorded attributes are the entry's own
    for e in eff:
        if e[0] == "lchown":
            o = obj.fields["uid"] if present["uid"] else -1
            g = obj.fields["gid"] if present["gid"] else -1
            ex.oblige(f"{P}.ensures.owner_is_the_recorded_one", And(_same(e[2], o), _same(e[3], g)))
        if e[0] == "chmod":
            ex.oblige(f"{P}.ensures.mode_is_the_recorded_one", _same(e[2], obj.fields["mode"]))
        if e[0] in ("utime", "lutime"):
            ex.oblige(f"{P}.ensures.mtime_is_the_recorded_one", And(isinstance(e[2], tuple), _same(e[2][0], obj.fields["mtime"]), _same(e[2][1], obj.fields["mtime"])))
        if e[0] == "symlink":
            ex.oblige(f"{P}.ensures.symlink_target_is_the_recorded_one", e[2] == "the-target")
        if e[0] == "mknod":
            ex.oblige(f"{P}.ensures.device_numbers_are_the_recorded_ones", And(e[3] == ("dev", 8, 1), (_same(e[2], obj.fields["mode"]) if present["mode"] else e[2] is None)))


def _same(a, b):
    if isinstance(a, SInt) and isinstance(b, SInt):
        return SBool(a.t == b.t)
    return a is b or (not isinstance(a, SInt) and not isinstance(b, SInt) and a == b)


def t_ensure_perms(ex):
    kinds = (("file", "file"), ("dir", "dir"), ("dir", "file"), ("sym", "sym"), ("file", None))[ex.choose(5)]
    present = {a: bool(ex.choose(2)) for a in ("mode", "uid", "gid", "mtime")}
    P = f"C18.ensure_perms[{kinds[0]} vs {kinds[1] or 'nothing'}]"
    it = Interp(ex, label=P)
    tr = M.Trace()
    d1 = M.fs_obj(kinds[0], LOC, ex, tag="wanted", present=present)
    d2 = M.fs_obj(kinds[1], LOC, ex, tag="found") if kinds[1] else None
    M.install(it, ex, tr)
    out = call(it, it.target(OPS, "ensure_perms"), d1, d2) if d2 is not None else call(it, it.target(OPS, "ensure_perms"), d1)
    ex.oblige(f"{P}.raises.nothing", not out.raised, kind="exceptional-postcondition")
    if out.raised:
        return
    ops_done = [e[0] for e in tr.effects]
    f1, f2 = d1.fields, (d2.fields if d2 else None)
    T, F = SBool(z3.BoolVal(True)), SBool(z3.BoolVal(False))
    differs = lambda a: T if f2 is None else SBool(f1[a].t != f2[a].t) if f1[a] is not None else T
    want_chown = And(Or(differs("uid") if present["uid"] else (T if f2 is None else SBool(z3.IntVal(-1) != f2["uid"].t)),
                        differs("gid") if present["gid"] else (T if f2 is None else SBool(z3.IntVal(-1) != f2["gid"].t))),
                     T if (present["uid"] or present["gid"]) else F)
    ex.oblige(f"{P}.ensures.owner_set_exactly_when_it_is_recorded_and_differs", _iff("lchown" in ops_done, want_chown, ex))
    if kinds[0] == "sym":
        # chmod and a following utime would act on whatever the link points at
        ex.oblige(f"{P}.ensures.never_through_a_symlink", "chmod" not in ops_done and "utime" not in ops_done)
        want_mtime = F if not present["mtime"] else differs("mtime")
        ex.oblige(f"{P}.ensures.the_links_own_mtime_set_exactly_when_recorded_and_differs", _iff("lutime" in ops_done, want_mtime, ex))
    else:
        keep_dir = kinds == ("dir", "dir")
        want_mode = F if (not present["mode"] or keep_dir) else differs("mode")
        ex.oblige(f"{P}.ensures.mode_set_exactly_when_recorded_differs_and_not_an_existing_directory", _iff("chmod" in ops_done, want_mode, ex))
        want_mtime = F if not present["mtime"] else differs("mtime")
        ex.oblige(f"{P}.ensures.mtime_set_exactly_when_recorded_and_differs", _iff("utime" in ops_done, want_mtime, ex))
    ex.oblige(f"{P}.frame.only_the_entrys_own_location", set(tr.paths()) <= {LOC})


def _iff(done, cond, ex):
    """`done` is a concrete fact of this path; cond a term that has to agree with it under the path condition"""
    return cond if done else Not(cond)


def t_mkdir(ex):
    has_mode = bool(ex.choose(2))
    P = "C18.mkdir"
    it = Interp(ex, label=P)
    tr = M.Trace()
    d = M.fs_obj("dir", LOC, ex, present={"mode": has_mode, "uid": True, "gid": True, "mtime": True})
    if has_mode:
        ex.assume(d.fields["mode"] > 0)
    M.install(it, ex, tr)
    out = call(it, it.target(OPS, "mkdir"), d)
    ex.oblige(f"{P}.raises.nothing", not out.raised, kind="exceptional-postcondition")
    if out.raised:
        return
    e = tr.effects
    ok_first = bool(e) and e[0][0] == "mkdir" and e[0][1] == LOC and (_same(e[0][2], d.fields["mode"]) if has_mode else e[0][2] == 0o777)
    ex.oblige(f"{P}.ensures.creates_the_directory_with_its_mode_then_enforces_attributes[{'mode' if has_mode else 'no mode'}]",
              ok_first if isinstance(ok_first, bool) and not ok_first else And(ok_first, [x[0] for x in e[1:]] == ["lchown"] + (["chmod"] if has_mode else []) + ["utime"]))
    ex.oblige(f"{P}.frame.only_the_directory", set(tr.paths()) <= {LOC})


def t_do_link(ex):
    scenario = ("free", "exists", "exdev", "exists_exdev_second", "exists_rename_exdev", "other_error", "exists_rename_other")[ex.choose(7)]
    P = f"C18.do_link[{scenario}]"
    it = Interp(ex, label=P)
    tr = M.Trace()
    src = M.fs_obj("file", "/root/dir/first", ex, tag="src")
    trg = M.fs_obj("file", LOC, ex, tag="trg")
    faults = {"free": {}, "exists": {"link": errno.EEXIST}, "exdev": {"link": errno.EXDEV}, "other_error": {"link": errno.EPERM}}.get(scenario)
    link_calls = {"n": 0}
    M.install(it, ex, tr, faults=faults or {})
    if faults is None:
        # first link fails with EEXIST, then a later step fails
        import os as _os

        def m_link(it_, s, d):
            link_calls["n"] += 1
            if link_calls["n"] == 1:
                raise M.os_error(errno.EEXIST)
            if scenario == "exists_exdev_second":
                raise M.os_error(errno.EXDEV)
            tr.add("link", d, s)
        it.models[_os.link] = m_link
        if scenario.startswith("exists_rename"):
            def m_rename(it_, s, d):
                raise M.os_error(errno.EXDEV if scenario == "exists_rename_exdev" else errno.EPERM)
            it.models[_os.rename] = m_rename
    out = call(it, it.target(OPS, "do_link"), src, trg)
    shape = [(e[0], e[1]) for e in tr.effects]
    if scenario == "free":
        ex.oblige(f"{P}.ensures.links_the_location_to_the_first_entry", not out.raised and out.value is True and tr.effects == [("link", LOC, "/root/dir/first")])
    elif scenario == "exists":
        ex.oblige(f"{P}.ensures.stages_the_link_then_renames_onto_the_location", not out.raised and out.value is True and
                  tr.effects == [("unlink_if_exists", NEW), ("link", NEW, "/root/dir/first"), ("rename", NEW, LOC)])
    elif scenario == "exdev":
        ex.oblige(f"{P}.ensures.cross_device_means_copy_instead_and_nothing_touched", not out.raised and out.value is False and tr.effects == [])
    elif scenario == "exists_exdev_second":
        ex.oblige(f"{P}.ensures.cross_device_means_copy_instead_location_untouched", not out.raised and out.value is False and shape == [("unlink_if_exists", NEW)])
    elif scenario == "exists_rename_exdev":
        ex.oblige(f"{P}.ensures.failed_rename_cleans_its_staging_name_and_asks_for_a_copy", not out.raised and out.value is False and
                  shape == [("unlink_if_exists", NEW), ("link", NEW), ("unlink_if_exists", NEW)])
    elif scenario == "other_error":
        ex.oblige(f"{P}.raises.other_errors_propagate_untouched", out.raised_cls(OSError) and tr.effects == [], kind="exceptional-postcondition")
    else:
        ex.oblige(f"{P}.raises.other_rename_errors_propagate_after_cleanup", out.raised_cls(OSError) and shape == [("unlink_if_exists", NEW), ("link", NEW), ("unlink_if_exists", NEW)], kind="exceptional-postcondition")
    ex.oblige(f"{P}.frame.only_the_location_and_its_staging_name", set(p for p in tr.paths()) <= {LOC, NEW, "/root/dir/first"} and all(e[1] != "/root/dir/first" for e in tr.effects))


# ------------------------------------------------------------------ bounded stand-in: real merges in a scratch directory ----
def _snapshot(root):
    snap = {}
    for dp, dn, fn in os.walk(root):
        for n in dn + fn:
            p = os.path.join(dp, n)
            st = os.lstat(p)
            import stat as S
            kind = "dir" if S.S_ISDIR(st.st_mode) else "sym" if S.S_ISLNK(st.st_mode) else "file" if S.S_ISREG(st.st_mode) else "fifo" if S.S_ISFIFO(st.st_mode) else "other"
            data = open(p, "rb").read() if kind == "file" else os.readlink(p) if kind == "sym" else None
            snap[os.path.relpath(p, root)] = (kind, S.S_IMODE(st.st_mode), st.st_uid, st.st_gid, int(st.st_mtime), data, (st.st_dev, st.st_ino) if kind == "file" else None)
    return snap


def _build(rnd, base, names):
    """a random tree under base; returns nothing (the directory is the description)"""
    os.makedirs(base, exist_ok=True)
    files = []
    for n in names:
        kind = rnd.choice(("file", "file", "dir", "sym", "fifo", "hard"))
        p = os.path.join(base, n)
        os.makedirs(os.path.dirname(p), exist_ok=True)
        if os.path.lexists(p):
            continue
        if kind == "dir":
            os.makedirs(p)
            os.chmod(p, rnd.choice((0o755, 0o700, 0o775)))
        elif kind == "sym":
            os.symlink(rnd.choice(("a", "d1", "nowhere", "../x y")), p)
            os.lchown(p, rnd.choice((0, 7)), rnd.choice((0, 9)))
            os.utime(p, (2000 + rnd.randrange(50),) * 2, follow_symlinks=False)   # a recorded time of its own, not "now"
        elif kind == "fifo":
            os.mkfifo(p)
            os.utime(p, (3000 + rnd.randrange(50),) * 2)
        elif kind == "hard" and files:
            os.link(rnd.choice(files), p)
        else:
            with open(p, "w") as f:
                f.write(f"data of {n} {rnd.random()}")
            mode = rnd.choice((0o644, 0o600, 0o4755))
            os.chown(p, rnd.choice((0, 7)), rnd.choice((0, 9)))
            os.chmod(p, mode)   # after the chown: changing the owner clears the set-id bits
            os.utime(p, (1000 + rnd.randrange(50),) * 2)
            files.append(p)
    # directories get a recorded time of their own as well (set last and bottom-up: creating a child moves its parent's time); drawn from a
    # stream of its own so that the trees stay what they were
    r2 = random.Random(len(names) * 7919 + sum(map(len, names)))
    for dp, _dn, _fn in os.walk(base, topdown=False):
        if dp != base and not os.path.islink(dp):
            os.utime(dp, (4000 + r2.randrange(50),) * 2)


def t_can_be_hardlinked(ex):
    """fsFile._can_be_hardlinked(other): true exactly when other is a regular file, this entry carries a device and an inode number (entries
    built from a record rather than from a file system have neither), and device, inode, owner, group, mode and mtime all agree"""
    from pkgcore.fs import fs
    from pyvc.sym import KInt, Opt, SBool, And, Not
    P = "C18.fsFile._can_be_hardlinked"
    it = Interp(ex, label=P)
    other_is_reg = bool(ex.choose(2))

    def ent(tag, with_nums):
        f = {"location": f"/{tag}", "is_reg": True}
        for n in ("uid", "gid", "mode", "mtime"):
            f[n] = KInt.fresh(f"{tag}_{n}")
        for n in ("dev", "inode"):
            f[n] = KInt.fresh(f"{tag}_{n}") if with_nums[n] else None
        return SObj(fs.fsFile, f)
    nums_a = {"dev": bool(ex.choose(2)), "inode": bool(ex.choose(2))}
    nums_b = {"dev": bool(ex.choose(2)), "inode": bool(ex.choose(2))}
    a, b = ent("a", nums_a), ent("b", nums_b)
    if not other_is_reg:
        b.fields["is_reg"] = False
    out = call(it, it.target("src/pkgcore/fs/fs.py", "fsFile._can_be_hardlinked"), a, b)
    ex.oblige(f"{P}.raises.nothing", not out.raised, kind="exceptional-postcondition")
    if out.raised:
        return
    got = out.value if isinstance(out.value, SBool) else SBool(z3.BoolVal(bool(out.value)))
    if not other_is_reg or not all(nums_a.values()):
        ex.oblige(f"{P}.ensures.false_for_a_non_file_or_an_entry_without_device_and_inode_numbers", Not(got))
        return
    if not all(nums_b.values()):
        ex.oblige(f"{P}.ensures.false_when_the_other_entry_has_no_numbers", Not(got))
        return
    same = And(*[a.fields[n] == b.fields[n] for n in ("dev", "inode", "uid", "gid", "mode", "mtime")])
    ex.oblige(f"{P}.ensures.true_exactly_when_device_inode_owner_group_mode_and_mtime_agree", got == same)



NAMES = ["a", "b", "d1/a", "d1/b", "d1/d2/c", "x y", "d3/e", "link", "d1/link2"]


def enum_merges(seed):
    import random
    import shutil
    import tempfile
    from pkgcore.fs import livefs, contents, ops
    scratch = tempfile.mkdtemp(prefix="c18.", dir=os.environ.get("PYVC_SCRATCH", "/var/tmp"))
    fails, cases = [], 0
    try:
        for s in range(40):
            rnd = random.Random(seed * 1000 + s)
            src, root = os.path.join(scratch, f"s{s}"), os.path.join(scratch, f"r{s}")
            _build(rnd, src, rnd.sample(NAMES, rnd.choice((3, 5, 7))))
            _build(rnd, root, rnd.sample(NAMES, rnd.choice((0, 2, 4))))
            os.makedirs(root, exist_ok=True)
            cset = contents.contentsSet(livefs.scan(src, offset=src))
            # leftovers of an earlier, interrupted merge: '#new' siblings (longer than the new content, or of another type) beside files that get replaced
            for dp, dn, fn in list(os.walk(root)):
                for n_ in fn:
                    fp = os.path.join(dp, n_)
                    if not n_.endswith("#new") and os.path.lexists(os.path.join(src, os.path.relpath(fp, root))) and rnd.random() < .4:
                        if rnd.random() < .7:
                            open(fp + "#new", "w").write("LEFTOVER OF AN INTERRUPTED MERGE, LONGER THAN ANYTHING THE PACKAGE INSTALLS " * 3)
                        else:
                            os.symlink("stale", fp + "#new")
            # a directory of the package cannot replace a non-directory (refused by design): keep to mergeable combinations
            before = _snapshot(root)
            want = _snapshot(src)
            clash = [k for k, v in want.items() if v[0] == "dir" and k in before and before[k][0] not in ("dir", "sym")] + \
                    [k for k, v in want.items() if v[0] != "dir" and k in before and before[k][0] == "dir"]
            if clash:
                continue
            cases += 1
            model = {"seed": s, "source": {k: v[0] for k, v in want.items()}, "root_before": {k: v[0] for k, v in before.items()}}
            try:
                ops.merge_contents(cset, offset=root)
            except Exception as e:
                sym_dir = any(v[0] == "dir" and k in before and before[k][0] == "sym" for k, v in want.items()) or any(v[0] == "sym" and k in before and before[k][0] == "dir" for k, v in want.items())
                if not sym_dir and len(fails) < 4:
                    fails.append({"model": model, "detail": f"merge_contents raised {type(e).__name__}: {e} merging {model['source']} into {model['root_before']}"})
                continue
            after = _snapshot(root)
            probs, listed = [], []
            for k, w in want.items():
                a = after.get(k)
                if a is None:
                    probs.append(f"{k} missing")
                    continue
                if w[0] == "dir" and k in before:
                    if a[0] == "dir" and before[k][0] == "dir" and a[1] != before[k][1]:
                        probs.append(f"pre-existing directory {k} changed mode {oct(before[k][1])} -> {oct(a[1])}")
                    continue
                if a[0] != w[0] or a[5] != w[5]:
                    probs.append(f"{k}: expected {w[0]} {w[5]!r}, found {a[0]} {a[5]!r}")
                elif w[0] != "sym" and (a[1], a[2], a[3]) != (w[1], w[2], w[3]):
                    probs.append(f"{k}: mode/owner {oct(a[1])} {a[2]}:{a[3]}, recorded {oct(w[1])} {w[2]}:{w[3]}")
                elif w[0] == "sym" and (a[2], a[3]) != (w[2], w[3]):   # a symlink has no mode of its own, but it has an owner
                    probs.append(f"{k}: symlink owner {a[2]}:{a[3]}, recorded {w[2]}:{w[3]}")
                elif a[4] != w[4]:
                    # a created directory that received children: its time is set when it is made and moves again when they arrive (listed finding)
                    (listed if w[0] == "dir" and any(x.startswith(k + "/") for x in want) else probs).append(f"{k}: {w[0]} mtime {a[4]}, recorded {w[4]}")
            groups = {}
            for k, w in want.items():
                if w[0] == "file":
                    groups.setdefault(w[6], []).append(k)
            for g in groups.values():
                if len(g) > 1 and len({after[k][6] for k in g if k in after}) != 1:
                    probs.append(f"hardlink group {g} is not hardlinked after the merge")
            for k, b in before.items():
                if k.endswith("#new") and k[:-4] in want:
                    continue   # a temporary sibling of an entry the package installs: may be reused or removed
                if k not in want and after.get(k) != b and not any(k.startswith(w + "/") for w in want if want[w][0] != "dir"):
                    probs.append(f"unrelated path {k} changed: {b[:2]} -> {(after.get(k) or ('gone',))[:2]}")
            for k in after:
                if k not in want and k not in before:
                    probs.append(f"unrelated path {k} appeared")
            if probs and sum(1 for f in fails if not f["model"].get("created_directory_with_children_lost_its_recorded_mtime")) < 4:
                fails.append({"model": model, "detail": f"merging {model['source']} into {model['root_before']}: " + "; ".join(probs[:4])})
            elif listed and not probs and sum(1 for f in fails if f["model"].get("created_directory_with_children_lost_its_recorded_mtime")) < 2:
                fails.append({"model": dict(model, created_directory_with_children_lost_its_recorded_mtime=True), "detail": f"merging {model['source']} into {model['root_before']}: " + "; ".join(listed[:3])})
        # entries built from a record instead of from a file system scan carry no device / inode numbers: files that agree in owner, mode and
        # time are still files of their own (own data, link count 1); and a scanned hardlink group beside them is still linked
        from pkgcore.fs import fs as _fs
        from snakeoil.data_source import data_source as _ds
        for variant in ("no numbers", "inode only", "strict=False without numbers"):
            cases += 1
            root = os.path.join(scratch, "rec-" + variant.replace(" ", "_").replace("=", ""))
            os.makedirs(root)
            datas = {"/etc-a.conf": b"alpha = 1\n", "/etc-b.conf": b"beta = 2, and some more bytes\n", "/sub/c.conf": b"gamma\n"}
            kw = dict(mode=0o644, uid=0, gid=0, mtime=1234, strict=False)
            if variant == "inode only":
                kw["inode"] = 77
            ents = [_fs.fsDir("/sub", mode=0o755, uid=0, gid=0, mtime=1234, strict=False)] + [_fs.fsFile(loc, data=_ds(d), **kw) for loc, d in datas.items()]
            model = {"entries_built_by_hand": variant, "files": sorted(datas)}
            try:
                ops.merge_contents(contents.contentsSet(ents), offset=root)
                probs = []
                for loc, d in datas.items():
                    p_ = os.path.join(root, loc.lstrip("/"))
                    got = open(p_, "rb").read()
                    if got != d:
                        probs.append(f"{loc} holds {got!r}, its data is {d!r}")
                    if os.stat(p_).st_nlink != 1:
                        probs.append(f"{loc} has link count {os.stat(p_).st_nlink}: it shares an inode with another entry although nothing says they were one file")
                if probs and len(fails) < 6:
                    fails.append({"model": model, "detail": f"merging three record-built files ({variant}) with equal owner, mode and time: " + "; ".join(probs[:3])})
            except Exception as e:
                if len(fails) < 6:
                    fails.append({"model": model, "detail": f"merging three record-built files ({variant}) raised {type(e).__name__}: {e}"})
    finally:
        shutil.rmtree(scratch, ignore_errors=True)
    return {"name": "C18.merge_contents.bounded_enumeration", "bound": "40 seeded random content trees (<= 7 of 9 names: files with odd modes/owners/mtimes, hardlink groups, symlinks incl. dangling, fifos, nested "
            "directories, a name with a space) merged with an offset into random pre-existing roots (some holding '#new' leftovers of an interrupted merge) in a scratch directory; lstat/data/readlink/inode snapshots compared", "cases": cases, "failures": fails}


def tasks():
    return [
        Task("C18.copyfile", t_copyfile, [(OPS, "copyfile"), (OPS, "ensure_perms")]),
        Task("C18.ensure_perms", t_ensure_perms, [(OPS, "ensure_perms")]),
        Task("C18.mkdir", t_mkdir, [(OPS, "mkdir"), (OPS, "ensure_perms")]),
        Task("C18.do_link", t_do_link, [(OPS, "do_link")]),
        Task("C18.fsFile._can_be_hardlinked", t_can_be_hardlinked, [("src/pkgcore/fs/fs.py", "fsFile._can_be_hardlinked")]),
        Task("C18.merge_contents", None, [(OPS, "merge_contents")], enumerate=enum_merges),
    ]


REPLAY = {}
WITNESSES = {"created_directory_with_children": lambda m: bool(m.get("created_directory_with_children_lost_its_recorded_mtime"))}
