"""C36 -- fetching returns only verified files and uses every allowed attempt (DESIGN.md section 4, C36)."""
import itertools
import os
import types
import z3
from pyvc.api import Task, call, Interp, LoopSpec, Contract
from pyvc.interp import PyRaise
from pyvc.sym import KInt, KStr, KSeq, SBool, SInt, SObj, And, Or, Not, Implies, fresh_name

PROPERTY = "C36"
FILE = "src/pkgcore/fetch/custom.py"

ABSENT, PARTIAL, EMPTY, CORRUPT, GOOD = range(5)
STATE_NAMES = ["absent", "partial (too small, resumable)", "empty/unusable (not resumable)", "corrupt or oversized", "good"]

MANIFEST = {
    "text": "Unbounded proof over any number of attempts (>= 1), any number of URIs and every sequence of fetcher outcomes "
            "(file state after each spawn and exit status are havocked) that fetcher.fetch returns the path only when the file "
            "on disk verifies, never raises while a verifying file is in place (so a good download of the *last* attempt is "
            "returned), keeps a resumable partial file for the resume command, removes a non-resumable one before retrying, and "
            "never returns after a checksum failure.  The attempt loop is cut by an invariant; _verify, spawn_bash and os.unlink "
            "are replaced by their contracts over a ghost file state.",
    "note": "Trusted: the contract of fetch.base.fetcher._verify (returns iff size and all required checksums match, else raises "
            "MissingDistfile / FetchFailed(resumable) / ChksumFailure by file state), spawn_bash (any exit status, any resulting "
            "file state), os.unlink (removes or raises OSError); pyvc encoder.",
}
ASSUMPTIONS = [
    "ghost file state in {absent, partial, empty, corrupt, good}; only spawn_bash and os.unlink change it",
    "fetch.base.fetcher._verify: returns None iff the state is good; raises MissingDistfile (absent), FetchFailed(resumable=True) "
    "(partial), FetchFailed(resumable=False) (empty), ChksumFailure (corrupt/oversized)",
    "attempts >= 1 (the property quantifies over budgets 1-4; any n >= 1 is covered)",
]


class Ghost:
    def __init__(self, ex):
        self.ex = ex
        self.st = self.fresh_state("st0")
        self.last_verify = None  # state seen by the last _verify call
        self.unlinked_since_verify = False
        self.spawns = 0

    def fresh_state(self, name):
        s = KInt.fresh(name)
        self.ex.assume(And(s >= 0, s <= 4))
        return s


def make(ex, label):
    import pkgcore.fetch.custom as C
    import pkgcore.fetch.base as B
    from pkgcore.fetch import errors, fetchable
    g = Ghost(ex)
    P = label

    def verify_post(it, self_, path, target, *a, **k):
        g.last_verify = g.st
        g.unlinked_since_verify = False
        if it.truth(g.st == GOOD):
            return None
        if it.truth(g.st == ABSENT):
            raise PyRaise(errors.MissingDistfile(path))
        if it.truth(g.st == PARTIAL):
            raise PyRaise(errors.FetchFailed(path, "file is too small", resumable=True))
        if it.truth(g.st == EMPTY):
            raise PyRaise(errors.FetchFailed(path, "file is empty", resumable=False))
        raise PyRaise(errors.ChksumFailure(path, chksum="size", expected=1, value=2))

    def spawn_model(it, command, **opts):
        # obligations of the property at the moment the external fetcher is started
        lv = g.last_verify
        ex.oblige(f"{P}.spawn.only_after_a_failed_verify", lv is not None, kind="effect-invariant")
        if lv is not None:
            is_resume = isinstance(command, str) and command.startswith("resume ") if isinstance(command, str) else command.startswith("resume ")
            ex.oblige(f"{P}.spawn.resumable_partial_kept_for_resume_command",
                      Implies(lv == PARTIAL, And(g.st == PARTIAL, is_resume, not g.unlinked_since_verify)), kind="effect-invariant")
            ex.oblige(f"{P}.spawn.unusable_file_removed_before_plain_fetch",
                      Implies(Or(lv == EMPTY, lv == ABSENT), And(g.st == ABSENT, Not(is_resume) if not isinstance(is_resume, bool) else (not is_resume))), kind="effect-invariant")
        g.spawns += 1
        g.st = g.fresh_state("st_after_spawn")
        return KInt.fresh("exit_status")

    def unlink_model(it, path):
        if ex.choose(2) == 1:
            raise PyRaise(OSError("injected unlink failure"))
        g.st = SInt(z3.IntVal(ABSENT))
        g.unlinked_since_verify = True

    def on_havoc(it):
        g.st = g.fresh_state("st_loop")
        g.last_verify = None
        g.unlinked_since_verify = False

    loops = {("fetcher.fetch", 0): LoopSpec(lambda L, k: SBool(z3.BoolVal(True)), on_havoc=on_havoc,
                                           havoc={"last_exc": lambda it: SObj(errors.FetchFailed, {"resumable": False})})}
    it = Interp(ex, label=P, loops=loops, contracts={B.fetcher._verify: Contract("fetch.base.fetcher._verify", verify_post, trusted=True)},
                models={C.spawn_bash: spawn_model, os.unlink: unlink_model})
    return it, g


def t_fetch(ex):
    import pkgcore.fetch.custom as C
    from pkgcore.fetch import errors, fetchable
    P = "C36.fetcher.fetch"
    it, g = make(ex, P)
    fn = it.target(FILE, "fetcher.fetch")
    n = KInt.fresh("attempts")
    ex.assume(n >= 1)
    uris = KSeq(KStr).fresh("uris")
    with_chksums = ex.choose(2) == 0
    f = SObj(C.fetcher, {"distdir": "/dist", "command": "fetch %(URI)s %(FILE)s", "resume_command": "resume %(URI)s %(FILE)s",
                         "attempts": n, "userpriv": False, "readonly": False, "extra_env": None})
    target = SObj(fetchable, {"filename": "f.tar", "uri": uris, "chksums": {"size": 1} if with_chksums else {}})
    st0 = g.st
    ex.inputs.update({"attempts": n, "n_uris": uris.length(), "initial_state": st0, "with_chksums": with_chksums})
    out = call(it, fn, f, target)
    ex.inputs["state_at_exit"] = g.st
    if not out.raised:
        ex.cover("returns")
        ex.oblige(f"{P}.ensures.returns_the_distdir_path", out.value == "/dist/f.tar")
        ex.oblige(f"{P}.ensures.returned_file_is_verified", g.st == GOOD)
        return
    ex.cover("raises")
    ex.oblige(f"{P}.raises.only_fetch_errors", out.raised_cls(errors.FetchError), kind="exceptional-postcondition")
    ex.oblige(f"{P}.raises.never_while_a_verified_file_is_in_place", g.st != GOOD, kind="exceptional-postcondition")


def t_get_path(ex):
    """fetcher.get_path (what a target without URIs gets): the path in distdir exactly when _verify accepts the file there; whatever _verify
    objects to -- missing, too small, a wrong checksum -- never yields a path"""
    import pkgcore.fetch.custom as C
    from pkgcore.fetch import errors
    from pyvc.interp import PyRaise
    verdict = ("accepted", "missing", "too_small", "not_resumable", "chksum")[ex.choose(5)]
    P = f"C36.fetcher.get_path[_verify: {verdict}]"
    it = Interp(ex, label=P)
    seen = []

    def m_verify(it_, self_, path, target, *a, **k):
        seen.append(path)
        if verdict == "accepted":
            return None
        raise PyRaise({"missing": errors.MissingDistfile("f.tar"), "too_small": errors.FetchFailed("f.tar", "file is too small", resumable=True),
                       "not_resumable": errors.FetchFailed("f.tar", "size exceeds", resumable=False),
                       "chksum": errors.ChksumFailure("f.tar", chksum="sha256", expected=1, value=2)}[verdict])
    it.models[C.fetcher._verify] = m_verify
    import pkgcore.fetch.base as B
    it.models[B.fetcher._verify] = m_verify
    me = SObj(C.fetcher, {"distdir": "/distdir"})
    target = types.SimpleNamespace(filename="f.tar", uri=(), chksums={"size": 10})
    out = call(it, it.target(FILE, "fetcher.get_path"), me, target)
    ex.oblige(f"{P}.ensures.verifies_the_file_in_distdir", seen == ["/distdir/f.tar"])
    if verdict == "accepted":
        ex.oblige(f"{P}.ensures.hands_out_the_path", not out.raised and out.value == "/distdir/f.tar")
    else:
        ex.oblige(f"{P}.ensures.never_a_path_for_a_file_that_does_not_verify", out.raised or out.value is None)


def t_verify(ex):
    """fetch.base.fetcher._verify against the file on disk (size -1 = absent) -- the contract the proof of fetch() relies on, here proved of the real
    function: what counts as verified, as a resumable partial file, as unusable, as a checksum failure"""
    import pkgcore.fetch.base as B
    from pkgcore.fetch import errors, fetchable
    from pyvc.models import Model
    with_size, with_hash = bool(ex.choose(2)), bool(ex.choose(2))
    P = f"C36._verify[{'size' if with_size else 'no size'}, {'hash' if with_hash else 'no hash'} recorded]"
    actual, expected = KInt.fresh("size_on_disk"), KInt.fresh("recorded_size")
    ex.assume(And(actual >= -1, expected >= 0))
    hash_ok = bool(ex.choose(2))
    chks = {}
    if with_size:
        chks["size"] = expected
    if with_hash:
        chks["sha256"] = "recorded-digest"
    handlers = {k: Model((lambda it_, loc: actual) if k == "size" else (lambda it_, loc: "recorded-digest" if hash_ok else "other-digest"), f"handler[{k}]") for k in chks}
    it = Interp(ex, label=P, models={B.get_handlers: lambda it_, c=None: dict(handlers),
                                     B.get_chksums: lambda it_, loc, *names: [("recorded-digest" if hash_ok else "other-digest") for _ in names],
                                     os.path.exists: lambda it_, p: actual != -1,
                                     os.stat: lambda it_, p, **k: SObj(os.stat_result, {"st_size": actual})})
    target = SObj(fetchable, {"filename": "f.tar", "uri": (), "chksums": chks})
    ex.inputs.update({"size_on_disk": actual, "recorded_size": expected, "digest_matches": hash_ok})
    out = call(it, it.target("src/pkgcore/fetch/base.py", "fetcher._verify"), SObj(B.fetcher, {}), "/dist/f.tar", target)
    hash_fine = (not with_hash) or hash_ok
    if not out.raised:
        ex.cover("verifies")
        ex.oblige(f"{P}.ensures.returns_only_for_a_present_file_of_the_recorded_size_and_digest",
                  And(actual != -1, (actual == expected) if with_size else (actual > 0), hash_fine))
        return
    e = out.exc
    cls = e.cls
    if issubclass(cls, errors.MissingDistfile):
        ex.cover("missing")
        ex.oblige(f"{P}.raises.MissingDistfile_only_when_nothing_is_there", actual == -1, kind="exceptional-postcondition")
    elif issubclass(cls, errors.ChksumFailure):
        ex.cover("checksum failure")
        ex.oblige(f"{P}.raises.ChksumFailure_only_for_an_oversized_file_or_a_wrong_digest",
                  And(actual != -1, Or((actual > expected) if with_size else False, And((actual == expected) if with_size else (actual > 0), not hash_fine))), kind="exceptional-postcondition")
    elif issubclass(cls, errors.FetchFailed):
        resumable = bool(getattr(e.exc, "resumable", False))
        ex.cover("resumable" if resumable else "unusable")
        if resumable:
            ex.oblige(f"{P}.raises.resumable_exactly_for_a_present_file_smaller_than_recorded", And(with_size, actual != -1, actual < expected), kind="exceptional-postcondition")
        else:
            ex.oblige(f"{P}.raises.unusable_only_for_an_empty_file_of_unrecorded_size", And(not with_size, actual == 0), kind="exceptional-postcondition")
    else:
        ex.oblige(f"{P}.raises.only_fetch_errors", False, kind="exceptional-postcondition")
    # completeness: a present file of the recorded size and digest always verifies (an empty one too when the recorded size is 0)
    ex.oblige(f"{P}.ensures.a_file_of_the_recorded_size_and_digest_always_verifies",
              Not(And(actual != -1, (actual == expected) if with_size else (actual > 0), hash_fine)), kind="exceptional-postcondition")


# -------------------------------------------------------- bounded enumeration ----
def _simulate(attempts, n_uris, outcomes, initial, with_chksums, good=b"complete file content for checksum", spawns=None):
    """run the real fetch() with a scripted external fetcher; returns (result, final_state)"""
    import tempfile
    from unittest import mock
    from pkgcore.fetch import custom, errors, fetchable
    from snakeoil import data_source
    from snakeoil.chksum import get_handlers
    content = {ABSENT: None, PARTIAL: good[:10] if good else None, EMPTY: b"", CORRUPT: good[:-1] + b"X", GOOD: good}
    handlers = get_handlers()
    chk = {c: handlers[c](data_source.data_source(good)) for c in ("size", "sha256")} if with_chksums else {}
    with tempfile.TemporaryDirectory(dir="/var/tmp") as d:
        path = os.path.join(d, "f.tar")

        def put(state):
            if content[state] is None:
                if os.path.exists(path):
                    os.unlink(path)
            else:
                with open(path, "wb") as fh:
                    fh.write(content[state])
        put(initial)
        script = iter(outcomes)
        resumes = []

        def fake_spawn(cmd, **kw):
            st, status = next(script)
            resumes.append(cmd.startswith("resume"))
            if spawns is not None:
                spawns.append((cmd.startswith("resume"), os.path.getsize(path) if os.path.exists(path) else None))
            put(st)
            return status
        f = custom.fetcher(distdir=d, command="fetch ${URI} ${FILE}", resume_command="resume ${URI} ${FILE}", userpriv=False, attempts=attempts)
        target = fetchable("f.tar", uri=[f"http://h/{i}" for i in range(n_uris)] if isinstance(n_uris, int) else n_uris, chksums=chk)
        with mock.patch("pkgcore.fetch.custom.spawn_bash", side_effect=fake_spawn):
            try:
                r = f(target)     # the fetcher's entry point: fetch() for a target with URIs, get_path() for one without
                res = "returned" if r is not None else "no path (None)"
            except errors.FetchError as e:
                res = type(e).__name__
            except StopIteration:
                res = "script-exhausted"
        data = open(path, "rb").read() if os.path.exists(path) else None
        return res, data == good, data


def enum_fetch(seed):
    cases, fails = 0, []
    states = [ABSENT, PARTIAL, CORRUPT, GOOD]
    for attempts in (1, 2, 3):
        for n_uris in (1, 3):
            for initial in (ABSENT, PARTIAL, GOOD):
                for outs in itertools.product([(s, rc) for s in states for rc in (0, 1)], repeat=min(attempts, 2)):
                    outs = list(outs) + [(ABSENT, 1)] * 3
                    cases += 1
                    res, good_now, _ = _simulate(attempts, n_uris, outs, initial, True)
                    bad = None
                    if res == "returned" and not good_now:
                        bad = "returned a path whose file does not verify"
                    if res not in ("returned",) and good_now:
                        bad = f"raised {res} although a verifying file is in place"
                    if bad and len(fails) < 3:
                        fails.append({"model": {"attempts": attempts, "n_uris": n_uris, "initial": STATE_NAMES[initial],
                                                "outcomes": [(STATE_NAMES[s], rc) for s, rc in outs[:attempts]]},
                                      "detail": f"attempts={attempts} uris={n_uris} initial={STATE_NAMES[initial]} outcomes={[(STATE_NAMES[s], rc) for s, rc in outs[:attempts]]}: {bad}"})
    # a target without any URI (fetch-restricted, or already mirrored away): the file in place is handed out exactly when it verifies, nothing is spawned
    for good in (b"complete file content for checksum", b""):
        for uri in ((), None):
            for initial in [ABSENT, EMPTY, CORRUPT, GOOD] + ([PARTIAL] if good else []):
                cases += 1
                spawns = []
                res, good_now, data = _simulate(2, uri, [(GOOD, 0)] * 4, initial, True, good=good, spawns=spawns)
                bad = None
                if res == "returned" and not good_now:
                    bad = "handed out a path whose file does not verify"
                elif res != "returned" and good_now:
                    bad = f"answered {res} although a verifying file is in place"
                elif spawns:
                    bad = "spawned a fetch command for a target without URIs"
                if bad and len(fails) < 3:
                    fails.append({"model": {"uri": uri, "recorded_size": len(good), "initial": STATE_NAMES[initial]}, "detail": f"target without URIs (uri={uri!r}), recorded size {len(good)}, {STATE_NAMES[initial]} file in place: {bad}"})
    # 0-byte partial files, distfiles whose recorded size is 0, targets without checksums; and which command each spawn used:
    # the resume command exactly when a file smaller than the recorded size is in place, the plain one otherwise
    for good, with_chk in ((b"complete file content for checksum", True), (b"", True), (b"complete file content for checksum", False)):
        sts = [ABSENT, EMPTY, CORRUPT, GOOD] + ([PARTIAL] if good else [])
        for attempts in (1, 2, 3):
            for initial in sts:
                for outs in itertools.product([(s, rc) for s in sts for rc in (0, 1)], repeat=min(attempts, 2)):
                    outs = list(outs) + [(ABSENT, 1)] * 3
                    cases += 1
                    spawns = []
                    res, good_now, data = _simulate(attempts, 3, outs, initial, with_chk, good=good, spawns=spawns)
                    verifies = good_now if with_chk else bool(data)
                    model = {"attempts": attempts, "recorded_size": len(good) if with_chk else None, "initial": STATE_NAMES[initial], "outcomes": [(STATE_NAMES[s], rc) for s, rc in outs[:attempts]]}
                    bad = None
                    if res == "returned" and not verifies:
                        bad = "returned a path whose file does not verify"
                    elif res != "returned" and verifies:
                        bad = f"raised {res} although a verifying file is in place"
                    else:
                        for n_, (is_resume, size_before) in enumerate(spawns):
                            want_resume = with_chk and size_before is not None and size_before < len(good)
                            if is_resume != want_resume:
                                bad = (f"spawn #{n_ + 1} used the {'resume' if is_resume else 'plain fetch'} command with "
                                       f"{'no file' if size_before is None else 'a file of %d bytes' % size_before} in place (recorded size {len(good) if with_chk else 'none'})")
                                break
                    if bad and len(fails) < 3:
                        fails.append({"model": model, "detail": f"{model}: {bad}"})
    # URI sources as ebuilds give them: a uri_list of mirror tiers (several hosts each, tiers of different sizes), plain URIs in between.  With as many
    # attempts as there are URIs every one of them is tried once, so whichever host serves the file, fetch() returns it
    import tempfile
    from unittest import mock
    from pkgcore.fetch import custom, errors, fetchable, mirror, uri_list
    from snakeoil import data_source
    from snakeoil.chksum import get_handlers
    good = b"complete file content for checksum"
    chk = {c: get_handlers()[c](data_source.data_source(good)) for c in ("size", "sha256")}
    for shape in ((1, 2), (2, 1), (3, 1), (1, 3, 2), (2, 2), (1,), ("plain", 2, 1), (2, "plain", 1, 3)):
        def build():
            u, hosts = uri_list("f.tar"), []
            for ti, n in enumerate(shape):
                if n == "plain":
                    u.add_uri(f"http://plain{ti}/f.tar")
                    hosts.append(f"http://plain{ti}/f.tar")
                else:
                    hs = [f"http://t{ti}h{k}" for k in range(n)]
                    u.add_mirror(mirror(hs, f"tier{ti}"), "sub/f.tar")
                    hosts += [h + "/sub/f.tar" for h in hs]
            u.finalize()
            return u, hosts
        _u, hosts = build()
        for serving in hosts + [None]:
            cases += 1
            with tempfile.TemporaryDirectory(dir="/var/tmp") as d:
                path = os.path.join(d, "f.tar")
                tried = []

                def fake_spawn(cmd, **kw):
                    uri = cmd.split()[1]
                    tried.append(uri)
                    if uri == serving:
                        with open(path, "wb") as fh:
                            fh.write(good)
                        return 0
                    return 1
                f = custom.fetcher(distdir=d, command="fetch ${URI} ${FILE}", resume_command="resume ${URI} ${FILE}", userpriv=False, attempts=len(hosts))
                u, _h = build()
                with mock.patch("pkgcore.fetch.custom.spawn_bash", side_effect=fake_spawn):
                    try:
                        r = f(fetchable("f.tar", uri=u, chksums=chk))
                        res = "returned" if r is not None else "no path (None)"
                    except errors.FetchError as e:
                        res = type(e).__name__
                    except Exception as e:
                        res = f"{type(e).__name__}: {e}"
                bad = None
                if serving is not None and res != "returned":
                    bad = f"answered {res} although {serving} serves the file and the attempts ({len(hosts)}) cover every URI; tried {tried}"
                elif serving is None and (res == "returned" or sorted(tried) != sorted(hosts)):
                    bad = f"no host serves the file, {len(hosts)} attempts: answered {res} after trying {tried}; the URIs are {hosts}"
                if bad and len(fails) < 3:
                    fails.append({"model": {"uri_list": [str(x) for x in shape], "serving": serving, "attempts": len(hosts)}, "detail": f"uri_list of tiers {shape} (hosts per mirror tier / plain URIs): {bad}"})
    # one location listed twice (the same SRC_URI entry under two USE conditionals): it stands for two attempts, the second of which may complete
    # what the first one left; listed next to a mirror tier as well
    for with_tier in (False, True):
        cases += 1
        U = "http://only.example/f.tar"
        with tempfile.TemporaryDirectory(dir="/var/tmp") as d:
            path = os.path.join(d, "f.tar")
            tried = []

            def spawn2(cmd, **kw):
                tried.append(cmd.split()[1])
                if cmd.split()[1] != U:
                    return 1
                n_ = tried.count(U)
                with open(path, "wb") as fh:
                    fh.write(good[:len(good) // 2] if n_ == 1 else good)
                return 1 if n_ == 1 else 0
            u = uri_list("f.tar")
            if with_tier:
                u.add_mirror(mirror(["http://t0h0"], "tier0"), "sub/f.tar")
            u.add_uri(U)
            u.add_uri(U)
            u.finalize()
            want_tried = (["http://t0h0/sub/f.tar"] if with_tier else []) + [U, U]
            f = custom.fetcher(distdir=d, command="fetch ${URI} ${FILE}", resume_command="resume ${URI} ${FILE}", userpriv=False, attempts=len(want_tried))
            with mock.patch("pkgcore.fetch.custom.spawn_bash", side_effect=spawn2):
                try:
                    r = f(fetchable("f.tar", uri=u, chksums=chk))
                    res = "returned" if r is not None else "no path (None)"
                except errors.FetchError as e:
                    res = f"{type(e).__name__}: {e}"
                except Exception as e:
                    res = f"{type(e).__name__}: {e}"
            if (res != "returned" or tried != want_tried) and len(fails) < 3:
                fails.append({"model": {"uri_list": (["tier of 1 host"] if with_tier else []) + [U, U], "attempts": len(want_tried), "outcomes": "first attempt at the location leaves half the file, the second completes it"},
                              "detail": f"a location listed twice, {len(want_tried)} attempts, the second attempt at it completes the file: answered {res} after trying {tried}; every allowed attempt means {want_tried}"})
    return {"name": "C36.fetcher.fetch.bounded_enumeration", "bound": "2 uri_lists with one location listed twice (partial, then complete); 8 uri_list shapes (1..3 mirror tiers of 1..3 hosts, plain URIs in between) x every serving host; attempts 1-3, 1 or 3 URIs, 3 initial states, all outcome sequences (4 states x 2 exit codes) for the first two spawns; "
            "again with 0-byte files, with a distfile of recorded size 0 and without checksums, checking the command each spawn used", "cases": cases, "failures": fails}


def tasks():
    return [Task("C36.fetcher.fetch", t_fetch, [(FILE, "fetcher.fetch")], enumerate=enum_fetch),
            Task("C36.fetcher.get_path", t_get_path, [(FILE, "fetcher.get_path")]),
            Task("C36._verify", t_verify, [("src/pkgcore/fetch/base.py", "fetcher._verify")])]


def replay_fetch(model):
    """scripted fetcher: every spawn leaves the file in the model's exit state"""
    n = max(1, min(int(model["attempts"]), 6))
    final = model.get("state_at_exit", GOOD)
    outs = [(final, 0)] * (n + 2)
    init = model.get("initial_state", ABSENT)
    res, good_now, data = _simulate(n, max(int(model.get("n_uris", 1)), n + 1), outs, init, bool(model.get("with_chksums", True)))
    bad = (res == "returned" and not good_now) or (res != "returned" and good_now)
    return bad, (f"attempts={n}, initial={STATE_NAMES[init]}, every spawn leaves the file {STATE_NAMES[final]}: fetch() {res}; "
                 f"file on disk verifies: {good_now}")


REPLAY = {"C36.fetcher.fetch": replay_fetch}
