"""C41 -- the parallel map hands every item to exactly one worker and keeps every result (DESIGN.md section 4, C41)."""
import itertools
import random
import z3
from pyvc.api import Task, call, Interp
from pyvc.interp import PyRaise, LoopSpec
from pyvc.loops import IterView
from pyvc.models import Model, ModelHost
from pyvc.sym import KInt, KBool, KRef, KSeq, SBool, SInt, SSeq, And, Not, Or, Implies, OutOfSubset

PROPERTY = "C41"
TP = "src/pkgcore/util/thread_pool.py"
LEVEL = "other"
EXPLANATION = ("rely/guarantee decomposition: the sequential pieces of map_async are under contract and proved for any number of items and threads "
               "-- the feeder puts item k as the k-th entry of the queue, then exactly one end marker per started thread, starts every thread once and "
               "joins every thread before returning the deque the workers fill; iter_queue hands on exactly the items it dequeued, in order, takes at "
               "most one end marker and stops only on an end marker or a set kill flag (the flag is arbitrary at every test whenever some normal path "
               "of worker or feeder sets it); worker calls the functor once and stores a non-None result whole.  'Under every thread scheduling' then "
               "follows only with queue.Queue being a linearizable FIFO that delivers each entry to exactly one get, deque.append/extend being atomic, "
               "and the pigeonhole lemma lemmas/C41Composition.lean (p returned workers took an end marker each, the end markers are the last p entries, "
               "so all n + p entries were taken; checked by Lean 4 + Mathlib on every run) -- the two library facts are assumptions, no verifier here has threads.  A bounded stand-in explores the schedules themselves: every "
               "interleaving of the real map_async at its synchronisation points (Queue.put/get, Event.isSet/set, deque.append/extend, Thread.start/join) "
               "for small item and thread counts under a controlled scheduler.")

MANIFEST = {
    "text": "Contracts on the real map_async and its nested iter_queue / worker, re-extracted on every run: feeder (symbolic item count and thread "
            "count, loop invariants over a ghost queue and ghost threads), iter_queue (while-loop invariant: yielded == dequeued real items) and "
            "worker are proved; the composition over thread schedules rests on stated assumptions about queue.Queue and deque plus a pigeonhole lemma "
            "checked by Lean (lemmas/C41Composition.lean), so the level is 'other'.  Bounded stand-in: systematic exploration of every schedule of the real function at its synchronisation points "
            "for 0..3 items x 1..3 threads (quick: 0..2 x 1..2 plus seeded samples) with workers that return a value, None or a generator.",
    "note": "Assumed: queue.Queue linearizable multi-consumer FIFO; deque.append/extend atomic (GIL); an input iterable that raises is outside the property; context switches between synchronisation "
            "points do not matter because all shared state is reached through them.",
}
ASSUMPTIONS = [
    "queue.Queue is a linearizable FIFO: each put entry is returned by exactly one get, in put order",
    "deque.append / deque.extend are atomic with respect to other threads",
    "the functor consumes the iterator it is given (the 'worker function' of the statement is applied to what it takes from it)",
]

ITEM = KRef("QueueEntry")
SEQ = KSeq(ITEM, "list")


class Ghost:
    """ghost state shared by the stand-ins for Queue / Event / deque / Thread"""

    def __init__(self, ex):
        self.ex = ex
        self.items_put = SInt(z3.IntVal(0))
        self.sentinels_put = SInt(z3.IntVal(0))
        self.created = SInt(z3.IntVal(0))
        self.started = SInt(z3.IntVal(0))
        self.joined = SInt(z3.IntVal(0))
        self.kill_set = False        # concrete: was kill.set() executed on this path
        self.got = SSeq(z3.Empty(SEQ.sort), SEQ)   # real entries dequeued by the iter_queue under contract
        self.sent_got = SInt(z3.IntVal(0))
        self.kill_seen = False
        self.results = []            # ("append"|"extend", value)
        self.calls = []              # functor calls


class Tok(ModelHost):
    def __init__(self, what, idx=None):
        self.what, self.idx = what, idx

    def __repr__(self):
        return f"<{self.what} {self.idx}>"


def prims(ex, g, P, *, kill_arbitrary=False, input_view=None, sentinel=None, thread_ok=None):
    """stand-ins for the primitives map_async uses, all writing to the ghost state"""
    import queue
    import threading
    from collections import deque
    from snakeoil import klass

    class Q(ModelHost):
        def getattr(self, it, name):
            if name == "put":
                def put(it_, x):
                    if x is klass.sentinel:
                        g.sentinels_put = g.sentinels_put + 1
                        return None
                    ex.oblige(f"{P}.feeder.entries_before_end_markers", g.sentinels_put == 0, kind="effect-invariant")
                    if input_view is not None:
                        ex.oblige(f"{P}.feeder.kth_put_is_kth_item", SBool(x.t == input_view.at(g.items_put).t), kind="effect-invariant")
                    g.items_put = g.items_put + 1
                    return None
                return Model(put, "Queue.put")
            if name == "get":
                def get(it_, *a, **k):
                    if ex.choose(2) == 0:
                        g.sent_got = g.sent_got + 1
                        return sentinel
                    x = ITEM.fresh("entry")
                    ex.assume(Not(x == sentinel))
                    g.got = g.got + SSeq(z3.Unit(x.t), SEQ)
                    return x
                return Model(get, "Queue.get")
            raise OutOfSubset(f"Queue.{name}")

    class Kill(ModelHost):
        def getattr(self, it, name):
            if name in ("isSet", "is_set"):
                def is_set(it_):
                    if not kill_arbitrary:
                        return False
                    r = bool(ex.choose(2))
                    if r:
                        g.kill_seen = True
                    return r
                return Model(is_set, "Event.isSet")
            if name == "set":
                def set_(it_):
                    g.kill_set = True
                return Model(set_, "Event.set")
            if name == "clear":
                return Model(lambda it_: None, "Event.clear")
            raise OutOfSubset(f"Event.{name}")

    class Results(ModelHost):
        def getattr(self, it, name):
            if name in ("append", "extend"):
                return Model(lambda it_, v, _n=name: g.results.append((_n, v)), f"deque.{name}")
            raise OutOfSubset(f"deque.{name}")

    class Thread(ModelHost):
        def __init__(self, idx, target=None, args=None, kwargs=None):
            self.idx, self.target, self.args, self.kwargs = idx, target, args, kwargs

        def getattr(self, it, name):
            if name == "start":
                def start(it_):
                    ex.oblige(f"{P}.feeder.each_thread_started_once_in_order", self.idx == g.started, kind="effect-invariant")
                    g.started = g.started + 1
                return Model(start, "Thread.start")
            if name == "join":
                def join(it_, *a):
                    ex.oblige(f"{P}.feeder.each_thread_joined_once_in_order", self.idx == g.joined, kind="effect-invariant")
                    g.joined = g.joined + 1
                return Model(join, "Thread.join")
            raise OutOfSubset(f"Thread.{name}")

    class Threads(IterView):
        """the `threads` list: length is the ghost counter `created`, element k is ghost thread k"""
        desc = "threads"

        def __init__(self):
            pass

        @property
        def length_(self):
            return g.created

        def at(self, k):
            return Thread(k if isinstance(k, (int, SInt)) else SInt(k))

        def getattr(self, it, name):
            if name == "append":
                def append(it_, t):
                    ex.oblige(f"{P}.feeder.thread_list_holds_threads", isinstance(t, Thread), kind="effect-invariant")
                    if thread_ok is not None and isinstance(t, Thread):
                        thread_ok(t)
                    g.created = g.created + 1
                return Model(append, "list.append")
            raise OutOfSubset(f"list.{name}")

    q, kill, results, threads = Q(), Kill(), Results(), Threads()
    made = {"threads": []}

    def m_thread(it_, *a, target=None, args=(), kwargs=None, **k):
        t = Thread(g.created, target, args, kwargs)
        made["threads"].append(t)
        return t
    models = {queue.Queue: lambda it_, *a, **k: q, threading.Event: lambda it_: kill, deque: lambda it_, *a: results, threading.Thread: m_thread}
    return dict(q=q, kill=kill, results=results, threads=threads, models=models, made=made, Thread=Thread)


# ---------------------------------------------------------------- components ----
def _closures(ex, P, g):
    """run the real map_async once with one thread and no item to obtain its nested functions as defined by the current source"""
    got = {}
    pr = prims(ex, g, P)
    it = Interp(ex, label=P, models=pr["models"])
    it.funcdef_hook = lambda name, clo: got.__setitem__(name, clo)
    it.closure_models = {"iter_queue": lambda it_, *a, **k: Tok("iterator")}
    it.list_literal = lambda it_: []
    functor = Model(lambda it_, *a, **k: None, "functor")
    out = call(it, it.target(TP, "map_async"), [], functor, threads=1)
    return it, pr, got, out


def t_iter_queue(ex):
    P = "C41.iter_queue"
    g = Ghost(ex)
    it0, pr0, clos, out0 = _closures(ex, P, g)
    if "iter_queue" not in clos or "worker" not in clos:
        raise OutOfSubset("map_async no longer defines iter_queue / worker: the C41 contracts do not apply")
    # guarantee side of the rely: does a normal path of the feeder or of worker set the kill flag?
    feeder_sets = g.kill_set and not out0.raised
    g.kill_set = False
    res = (None, "value", "generator")[ex.choose(3)]
    gen = (x for x in ())
    val = {None: None, "value": Tok("result"), "generator": gen}[res]
    pr = prims(ex, g, P)
    itw = Interp(ex, label=P, models=pr["models"])
    wclo = clos["worker"]
    wclo.cells.locals["functor"] = Model(lambda it_, *a, **k: val, "functor")
    wclo.cells.locals["results"] = pr["results"]
    wclo.cells.locals["kill"] = pr["kill"]
    ow = call(itw, wclo, Tok("iterator"))
    worker_sets = g.kill_set and not ow.raised
    arbitrary = bool(feeder_sets or worker_sets)
    ex.cover("kill flag arbitrary" if arbitrary else "kill flag never set on a normal path")
    # iter_queue itself
    g2 = Ghost(ex)
    sentinel = ITEM.fresh("end_marker")
    pr2 = prims(ex, g2, P, kill_arbitrary=arbitrary, sentinel=sentinel)

    def inv(L, k):
        return And(SBool(L._out.t == g2.got.t), g2.sent_got == 0)

    def on_havoc(it_):
        g2.got = SEQ.fresh("got")
        g2.sent_got = KInt.fresh("sent_got")
        g2.kill_seen = False
    qn = clos["iter_queue"].ext.qualname
    it = Interp(ex, label=P, models=pr2["models"], loops={(qn, clos["iter_queue"].ext.loop_ordinal(_first_loop(clos["iter_queue"].node))): LoopSpec(inv, out_kind=SEQ, on_havoc=on_havoc)})
    out = call(it, clos["iter_queue"], pr2["kill"], pr2["q"], sentinel)
    ex.oblige(f"{P}.raises.nothing", not out.raised, kind="exceptional-postcondition")
    if out.raised:
        return
    from pyvc import models as M
    ys = M.gen_items(it, out.value)
    yt = ys.t if isinstance(ys, SSeq) else _seq_of(ys)
    ex.oblige(f"{P}.ensures.yields_exactly_the_dequeued_entries_in_order", SBool(yt == g2.got.t))
    ex.oblige(f"{P}.ensures.takes_at_most_one_end_marker", g2.sent_got <= 1)
    ex.oblige(f"{P}.ensures.stops_only_on_an_end_marker_or_a_set_kill_flag", Or(g2.sent_got == 1, bool(g2.kill_seen)))


def t_worker(ex):
    P = "C41.worker"
    g = Ghost(ex)
    it0, pr0, clos, out0 = _closures(ex, P, g)
    if "worker" not in clos:
        raise OutOfSubset("map_async no longer defines worker: the C41 contracts do not apply")
    res = ("none", "value", "generator", "string")[ex.choose(4)]
    gen = (x for x in ())
    val = {"none": None, "value": Tok("result"), "generator": gen, "string": "abc"}[res]
    pr = prims(ex, g, P)
    it = Interp(ex, label=P, models=pr["models"])
    wclo = clos["worker"]
    g.results, g.calls = [], []
    wclo.cells.locals["functor"] = Model(lambda it_, *a, **k: (g.calls.append((a, k)), val)[1], "functor")
    wclo.cells.locals["results"] = pr["results"]
    wclo.cells.locals["kill"] = pr["kill"]
    itr, extra = Tok("iterator"), Tok("extra-arg")
    out = call(it, wclo, itr, extra, kw=1)
    ex.oblige(f"{P}.raises.nothing[{res}]", not out.raised, kind="exceptional-postcondition")
    if out.raised:
        return
    ex.oblige(f"{P}.ensures.functor_called_exactly_once_with_the_iterator_and_the_given_arguments[{res}]",
              len(g.calls) == 1 and g.calls[0][0][:1] == (itr,) and g.calls[0][0][1:] == (extra,) and g.calls[0][1] == {"kw": 1})
    want = {"none": [], "value": [("append", val)], "generator": [("extend", val)], "string": [("append", val)]}[res]
    ex.oblige(f"{P}.ensures.result_stored_whole_unless_None[{res}]", len(g.results) == len(want) and all(a[0] == b[0] and a[1] is b[1] for a, b in zip(g.results, want)))


def t_feeder(ex):
    """map_async itself for any number of items and threads; iter_queue and worker are not run here (they run in the threads)"""
    from snakeoil import klass
    with_len = bool(ex.choose(2))
    P = f"C41.map_async[{'sized' if with_len else 'unsized'} input]"
    g = Ghost(ex)
    n = KInt.fresh("n_items")
    ex.assume(n >= 0)
    threads_arg = KInt.fresh("threads")     # any integer: a pool asked for with 0 or fewer threads still has to process the input
    items = SEQ.fresh("items")
    ex.assume(items.length() == n)

    class Input(IterView):
        def getattr(self, it_, name):
            if name == "__len__" and with_len:
                return Model(lambda it__: n, "len")
            raise PyRaise(AttributeError(name))

        def len(self, it_):
            if with_len:
                return n
            raise PyRaise(TypeError("object has no len()"))
    view = Input(n, lambda k: items.at(k), "input")
    toks = []
    extra = Tok("extra-arg")

    def thread_ok(t):
        ex.oblige(f"{P}.feeder.thread_runs_worker_on_its_own_fresh_iterator_with_the_callers_arguments",
                  getattr(t.target, "name", None) == "worker" and isinstance(t.args, tuple) and len(toks) >= 1 and t.args == (toks[-1], extra)
                  and all(t.args[0] is not u for u in toks[:-1]) and t.kwargs == {"flag": 7}, kind="effect-invariant")
    pr = prims(ex, g, P, input_view=view, thread_ok=thread_ok)
    Thread = pr["Thread"]

    def par(L):
        return L.parallelism

    def inv_create(L, k):
        return And(g.created == k, g.items_put == 0, g.sentinels_put == 0, g.started == 0, g.joined == 0)

    def inv_start(L, k):
        return And(g.created == par(L), g.started == k, g.items_put == 0, g.sentinels_put == 0, g.joined == 0)

    def inv_feed(L, k):
        return And(g.created == par(L), g.started == par(L), g.items_put == k, g.sentinels_put == 0, g.joined == 0)

    def inv_end(L, k):
        return And(g.created == par(L), g.started == par(L), g.items_put == n, g.sentinels_put == k, g.joined == 0)

    def inv_join(L, k):
        return And(g.created == g.started, g.items_put == n, g.sentinels_put == g.started, g.joined == k)

    def hv(*names):
        def on_havoc(it_):
            for nm in names:
                setattr(g, nm, KInt.fresh(nm))
        return on_havoc
    it = Interp(ex, label=P, models=pr["models"])
    target = it.target(TP, "map_async")
    own = _own_loops(target)
    if len(own) != 4:
        raise OutOfSubset(f"map_async has {len(own)} loops of its own, the feeder contract is written for 4 (create, start, feed, end markers)")
    specs = [LoopSpec(inv_create, on_havoc=hv("created"), havoc={"tkwds": lambda it_: {}, "targs": lambda it_: (), "threads": lambda it_: pr["threads"]}),
             LoopSpec(inv_start, on_havoc=hv("started")), LoopSpec(inv_feed, on_havoc=hv("items_put")), LoopSpec(inv_end, on_havoc=hv("sentinels_put"))]
    it.loops.update({(target.ext.qualname, o): sp for o, sp in zip(own, specs)})
    it.loops[("reclaim_threads", 0)] = LoopSpec(inv_join, on_havoc=hv("joined"))
    it.closure_models = {"iter_queue": lambda it_, kill, q, marker: (ex.oblige(f"{P}.feeder.iterator_reads_the_shared_queue_until_the_end_marker",
                                                                              kill is pr["kill"] and q is pr["q"] and marker is klass.sentinel, kind="callee-precondition"), toks.append(Tok("iterator", len(toks))), toks[-1])[2]}
    it.list_literal = lambda it_: pr["threads"]
    functor = Model(lambda it_, *a, **k: None, "functor")
    ex.inputs.update({"n_items": n, "threads": threads_arg, "sized": with_len})
    out = call(it, target, view, functor, extra, threads=threads_arg, flag=7)
    ex.oblige(f"{P}.raises.nothing", not out.raised, kind="exceptional-postcondition")
    if out.raised:
        return
    ex.oblige(f"{P}.ensures.every_item_put_exactly_once_in_order", g.items_put == n)
    ex.oblige(f"{P}.ensures.one_end_marker_per_started_thread", And(g.sentinels_put == g.started, g.started == g.created))
    ex.oblige(f"{P}.ensures.at_least_one_thread_when_there_is_an_item", Implies(n >= 1, g.started >= 1))
    ex.oblige(f"{P}.ensures.no_more_threads_than_asked_for", Or(g.started <= threads_arg, g.started <= 1))
    ex.oblige(f"{P}.ensures.every_thread_joined_before_returning", g.joined == g.started)
    ex.oblige(f"{P}.ensures.returns_the_deque_the_workers_fill", out.value is pr["results"])
    ex.oblige(f"{P}.ensures.kill_flag_untouched_on_the_normal_path", not g.kill_set)

def t_composition(ex):
    """the pigeonhole step from the three component contracts to 'every entry taken exactly once', checked by Lean on every run"""
    import os
    import shutil
    import subprocess
    P = "C41.composition"
    src = os.path.join(os.path.dirname(os.path.dirname(os.path.abspath(__file__))), "lemmas", "C41Composition.lean")
    lean = shutil.which("lean")
    if lean is None or not os.path.exists(src):
        raise OutOfSubset("lean or lemmas/C41Composition.lean not available: the composition lemma is undecided")
    text = open(src).read()
    try:
        r = subprocess.run([lean, src], capture_output=True, text=True, timeout=900)
    except subprocess.TimeoutExpired:
        raise OutOfSubset("lean timed out on lemmas/C41Composition.lean")
    ex.cover("lean ran")
    clean = r.returncode == 0 and "error" not in r.stdout and "sorry" not in r.stdout and "sorry" not in text and "axiom " not in text
    ex.inputs["lean_output"] = (r.stdout + r.stderr)[-400:]
    ex.oblige(f"{P}.lemma.every_entry_taken_when_all_workers_returned[lean4+Mathlib, no sorry, no axiom]", clean, kind="lemma")


def t_regen_iter(ex):
    """regen_iter, the worker function metadata regeneration hands to map_async: it has to take every item it is given (a worker that
    dies early strands the rest of the queue) and report exactly the items whose regeneration failed"""
    from pkgcore.operations import regen as RG
    from pkgcore.package.errors import MetadataException
    from pyvc import theory
    P = "C41.regen_iter"
    PKG = KRef("RegenPkg")
    pkgs = KSeq(PKG, "list").fresh("pkgs")
    n = pkgs.length()
    OUTC = theory.ufun("regen_outcome", PKG.sort, z3.IntSort())   # 0 fine, 1 MetadataException, 2 ValueError, 3 OSError, 4 KeyError
    Y = theory.ufun("failures_among_first", z3.IntSort(), z3.IntSort())
    theory._add_axiom(("C41.Y", "base"), Y(0) == 0)

    def unfold(k):
        kt = k.t if isinstance(k, SInt) else z3.IntVal(k)
        theory._add_axiom(("C41.Y", "unfold", z3.simplify(kt).get_id()),
                          z3.Implies(z3.And(kt >= 0, kt < n.t), Y(kt + 1) == Y(kt) + z3.If(OUTC(pkgs.t[kt]) >= 2, 1, 0)))
    g = Ghost(ex)
    g.calls, g.reported = SInt(z3.IntVal(0)), SInt(z3.IntVal(0))
    last = {}

    def regen_func(it_, pkg):
        ex.oblige(f"{P}.effect.items_are_taken_one_by_one_in_order", SBool(pkg.t == pkgs.at(g.calls).t), kind="effect-invariant")
        g.calls = g.calls + 1
        o = SInt(OUTC(pkg.t))
        ex.assume(And(o >= 0, o <= 4))
        if it_.truth(o == 0):
            return None
        if it_.truth(o == 1):
            raise PyRaise(MetadataException(None, "keywords", "bad metadata"))
        exc = ValueError("bad cache entry") if it_.truth(o == 2) else OSError(5, "io") if it_.truth(o == 3) else KeyError("_md5_")
        last["pkg"], last["exc"] = pkg, exc
        raise PyRaise(exc)

    def on_yield(v):
        okv = isinstance(v, tuple) and len(v) == 2
        ex.oblige(f"{P}.effect.a_report_names_the_item_just_taken_and_its_own_exception",
                  okv and last.get("pkg") is not None and v[1] is last.get("exc") and SBool(v[0].t == last["pkg"].t), kind="effect-invariant")
        if okv and last.get("pkg") is not None:
            ex.oblige(f"{P}.effect.only_failed_items_are_reported", SBool(OUTC(v[0].t) >= 2), kind="effect-invariant")
        g.reported = g.reported + 1
        last.clear()
        return False

    def inv(L, k):
        unfold(k)
        return And(g.calls == k, SBool(g.reported.t == Y(k.t if isinstance(k, SInt) else z3.IntVal(k))))

    def on_havoc(it_):
        g.calls, g.reported = KInt.fresh("calls"), KInt.fresh("reported")
        last.clear()
    it = Interp(ex, label=P, loops={("regen_iter", 0): LoopSpec(inv, on_havoc=on_havoc, out_kind=KSeq(KInt, "list"))})
    it.yield_filter = on_yield
    ex.inputs.update({"n_items": n})
    out = call(it, it.target("src/pkgcore/operations/regen.py", "regen_iter"), pkgs, Model(regen_func, "regen_func"), object())
    ex.oblige(f"{P}.raises.nothing_for_ordinary_failures_of_an_item", not out.raised, kind="exceptional-postcondition")
    if out.raised:
        return
    unfold(n)
    ex.oblige(f"{P}.ensures.every_item_given_is_taken", g.calls == n)
    ex.oblige(f"{P}.ensures.exactly_the_failed_items_are_reported", SBool(g.reported.t == Y(n.t)))


def _own_loops(clo):
    """ordinals of the loops of a function that are not inside a nested function, in source order"""
    import ast
    out = []

    def walk(n):
        for c in ast.iter_child_nodes(n):
            if isinstance(c, (ast.FunctionDef, ast.Lambda, ast.AsyncFunctionDef)):
                continue
            if isinstance(c, (ast.For, ast.While)):
                out.append(clo.ext.loop_ordinal(c))
            walk(c)
    walk(clo.node)
    return out


def _first_loop(node):
    import ast
    for n in ast.walk(node):
        if isinstance(n, (ast.While, ast.For)):
            return n
    raise OutOfSubset("iter_queue has no loop")


def _seq_of(items):
    t = z3.Empty(SEQ.sort)
    for x in items:
        t = z3.Concat(t, z3.Unit(x.t))
    return t


# ------------------------------------------------------------------ bounded stand-in ----
def mk_enum(kind):
    def enum(seed):
        import os
        import pkgcore.util.thread_pool as tp
        from contracts import sched_explore as S
        thorough = os.environ.get("VERIF_TIER") == "thorough"
        confs = [(n, th, True, 2) for n in (0, 1, 2) for th in (1, 2)] + [(1, 2, False, 2), (0, 2, False, 2)]
        confs += [(2, 0, True, 1), (1, -1, True, 1), (2, 0, False, 1), (0, 0, True, 1)]     # a pool asked for with no threads at all
        if thorough:
            confs += [(3, 2, True, 2), (2, 2, True, 3), (3, 3, True, 1), (2, 3, False, 1)]
        fails, runs = [], 0
        for n, th, sized, bound, *kw in confs + [(2, 2, True, 1, {"tag": "t"})]:
            kw = kw[0] if kw else None
            r, f = S.explore(tp, list(range(n)), th, kind, bound, sized=sized, kw=kw)
            runs += r
            if f:
                fails.append({"model": {"items": n, "threads": th, "sized_input": sized, "worker_returns": kind, "keywords": kw, "schedule": f["schedule"]}, "detail": f["detail"]})
        # seeded random schedules (no preemption bound) on larger configurations
        rnd = random.Random(seed * 7919 + len(kind))
        for _ in range(1500 if thorough else 150):
            n, th, sized = rnd.choice((2, 3, 4, 5)), rnd.choice((2, 3, 4)), rnd.random() < 0.7
            s_, out = S.run_once(tp, list(range(n)), th, kind, [], 10 ** 6, rnd=rnd, sized=sized)
            runs += 1
            bad = S.judge(list(range(n)), kind, out)
            if bad:
                fails.append({"model": {"items": n, "threads": th, "sized_input": sized, "worker_returns": kind, "schedule": [f"{t}:{op}" for t, op in s_.trace]}, "detail": bad})
                break
        return {"name": f"C41.schedules[worker returns {kind}]",
                "bound": "every schedule of the real map_async at its synchronisation points with <= 2 preemptions for 0..2 items x 1..2 threads "
                         "(sized and unsized input), 2 x 2 with a keyword argument (1 preemption), 0..2 items with 0 / -1 threads asked for" + ("; 3 items x 2 threads (2 preemptions), 2 x 2 (3 preemptions), 3 x 3 and unsized 2 x 3 (1 preemption)" if thorough else "")
                         + f"; {1500 if thorough else 150} seeded random schedules for 2..5 items x 2..4 threads",
                "cases": runs, "failures": fails[:5]}
    return enum


def tasks():
    return [
        Task("C41.iter_queue", t_iter_queue, [(TP, "map_async")]),
        Task("C41.worker", t_worker, [(TP, "map_async")]),
        Task("C41.map_async", t_feeder, [(TP, "map_async"), (TP, "reclaim_threads")]),
        Task("C41.composition", t_composition, [(TP, "map_async")]),
        Task("C41.regen_iter", t_regen_iter, [("src/pkgcore/operations/regen.py", "regen_iter")]),
    ] + [Task(f"C41.schedules.{k}", None, [(TP, "map_async")], enumerate=mk_enum(k)) for k in ("generator", "list", "none")] + [
    ]


# ---------------------------------------------------------------- replay ----
def replay_feeder(model):
    """the real map_async with the model's item count and thread count: every item must reach the worker function exactly once"""
    import pkgcore.util.thread_pool as tp
    n, th, sized = max(0, min(int(model.get("n_items", 0)), 50)), max(-5, min(int(model.get("threads", 1)), 8)), bool(model.get("sized", True))
    seen = []

    def functor(it_, *a, **k):
        for x in it_:
            seen.append(x)
    items = list(range(n))
    tp.map_async(items if sized else iter(items), functor, threads=th)
    return sorted(seen) != items, f"map_async over {n} items ({'sized' if sized else 'unsized'} input) with threads={th}: the worker function saw {sorted(seen)}"


REPLAY = {"C41.map_async": replay_feeder}
