"""C06 -- boolean restriction trees are propositional logic; normal forms agree with match (DESIGN.md section 4, C06)."""
import itertools
import z3
from pyvc.api import Task, call, Interp, LoopSpec
from pyvc.models import Model
from pyvc.sym import KRef, KSeq, KBool, KInt, SBool, SInt, SObj, And, Or, Not, Implies
from pyvc import theory

PROPERTY = "C06"
FILE = "src/pkgcore/restrictions/boolean.py"
Rst, Val = KRef("Restriction"), KRef("MatchArg")

MANIFEST = {
    "text": "Unbounded proof, for any number of children whose own match results are arbitrary (so for trees of any depth, by "
            "structural modularity), that AndRestriction/OrRestriction/JustOneRestriction/AtMostOneOfRestriction.match and "
            "restriction.Negate.match compute all-of / any-of / exactly-one-of (or empty) / at-most-one-of / not, xor negate "
            "(loop invariants over recursively defined ALL/ANY/COUNT functions, COUNT monotonicity by an induction lemma).  "
            "dnf_solutions/cnf_solutions are a bounded stand-in: every tree of depth <= 2 with <= 3 children per node over 4 "
            "leaves, every truth assignment, DNF/CNF evaluated against match().",
    "note": "Trusted: children's match is a pure function of (child, argument); pyvc encoder.  force_True/force_False "
            "(the resolver's backtracking toggles) are not under contract.",
}
ASSUMPTIONS = ["a child restriction's match(x) is a pure boolean function match_of(child, x)",
               "exactly-one-of with no children is satisfied (documented behaviour of JustOneRestriction)"]


def setup(ex, cls_name, label):
    import pkgcore.restrictions.boolean as B
    m = theory.ufun("match_of", Rst.sort, Val.sort, z3.BoolSort())
    kids = KSeq(Rst).fresh("restrictions")
    x = Val.fresh("x")
    negate = KBool.fresh("negate")
    me = SObj(getattr(B, cls_name), {"restrictions": kids, "negate": negate})
    mk = lambda k: m(kids.t[k], x.t)
    return m, kids, x, negate, me, mk


def interp(ex, label, m, loops):
    it = Interp(ex, label=label, loops=loops)
    it.ref_attrs = {("Restriction", "match"): lambda it_, r: Model(lambda it__, v, _r=r: SBool(m(_r.t, v.t)), "restriction.match")}
    return it


def _kt(k):
    return k.t if isinstance(k, SInt) else z3.IntVal(k)


def t_and_or(ex):
    which = ("AndRestriction", "OrRestriction")[ex.choose(2)]
    P = f"C06.{which}.match"
    m, kids, x, negate, me, mk = setup(ex, which, P)
    n = z3.Length(kids.t)
    A = theory.ufun("ALL" if which.startswith("And") else "ANY", z3.IntSort(), z3.BoolSort())
    is_and = which.startswith("And")
    theory._add_axiom(("A0",), A(0) == z3.BoolVal(is_and))

    def unfold(k):
        kt = _kt(k)
        step = z3.And(A(kt), mk(kt)) if is_and else z3.Or(A(kt), mk(kt))
        theory._add_axiom(("A", z3.simplify(kt).get_id()), z3.Implies(z3.And(kt >= 0, kt < n), A(kt + 1) == step))

    def inv(L, k):
        unfold(k)
        return SBool(A(_kt(k)) == z3.BoolVal(is_and))
    it = interp(ex, P, m, {(f"{which}.match", 0): LoopSpec(inv)})
    out = call(it, it.target(FILE, f"{which}.match"), me, x)
    ex.oblige(f"{P}.raises.nothing", not out.raised, kind="exceptional-postcondition")
    if out.raised:
        return
    r = out.value
    r = r.t if isinstance(r, SBool) else z3.BoolVal(bool(r))
    k = it.loop_k.get((f"{which}.match", 0))
    if k is not None:
        unfold(k)
        # early exit at child k: the remaining children cannot change an all-of that is already false / any-of already true
        ex.oblige(f"{P}.ensures.early_exit_value", SBool(r == z3.Xor(z3.Not(z3.BoolVal(is_and)), negate.t)))
        ex.oblige(f"{P}.ensures.early_exit_justified", SBool(A(_kt(k) + 1) == z3.BoolVal(not is_and)))
    else:
        ex.oblige(f"{P}.ensures.{'all' if is_and else 'any'}_of_children_xor_negate", SBool(r == z3.Xor(A(n), negate.t)))


def t_absorbing_lemma(ex):
    """once an all-of is false (any-of true) it stays so: step of the induction over the remaining children"""
    P = "C06.lemma"
    for name, absorbing in (("ALL", False), ("ANY", True)):
        A = theory.ufun(name + "_L", z3.IntSort(), z3.BoolSort())
        mk = theory.ufun("m_L", z3.IntSort(), z3.BoolSort())
        i = z3.Int("i")
        step = z3.And(A(i), mk(i)) if name == "ALL" else z3.Or(A(i), mk(i))
        ex.oblige(f"{P}.{name}.absorbing_step", SBool(z3.Implies(z3.And(A(i + 1) == step, A(i) == z3.BoolVal(absorbing)), A(i + 1) == z3.BoolVal(absorbing))), kind="lemma-step")


def t_count(ex):
    which = ("JustOneRestriction", "AtMostOneOfRestriction")[ex.choose(2)]
    P = f"C06.{which}.match"
    m, kids, x, negate, me, mk = setup(ex, which, P)
    n = z3.Length(kids.t)
    C = theory.ufun("COUNT", z3.IntSort(), z3.IntSort())
    theory._add_axiom(("C0",), C(0) == 0)

    def unfold(k):
        kt = _kt(k)
        theory._add_axiom(("C", z3.simplify(kt).get_id()), z3.Implies(z3.And(kt >= 0, kt < n), C(kt + 1) == C(kt) + z3.If(mk(kt), 1, 0)))

    def inv(L, k):
        unfold(k)
        kt = _kt(k)
        armed = L.armed
        armed_t = armed.t if isinstance(armed, SBool) else z3.BoolVal(bool(armed))
        return And(SBool(C(kt) >= 0), SBool(C(kt) <= 1), SBool(armed_t == (C(kt) == 1)))
    it = interp(ex, P, m, {(f"{which}.match", 0): LoopSpec(inv)})
    out = call(it, it.target(FILE, f"{which}.match"), me, x)
    ex.oblige(f"{P}.raises.nothing", not out.raised, kind="exceptional-postcondition")
    if out.raised:
        return
    r = out.value
    r = r.t if isinstance(r, SBool) else z3.BoolVal(bool(r))
    k = it.loop_k.get((f"{which}.match", 0))
    if which.startswith("JustOne"):
        sat = lambda cnt: z3.Or(n == 0, cnt == 1)
    else:
        sat = lambda cnt: cnt <= 1
    if k is not None:
        unfold(k)
        # returned from inside the loop: a second match was found; by monotonicity (lemma) the final count is >= 2
        ex.oblige(f"{P}.ensures.early_exit_only_on_second_match", SBool(C(_kt(k) + 1) >= 2))
        ex.oblige(f"{P}.ensures.early_exit_value", SBool(r == negate.t))
    else:
        ex.oblige(f"{P}.ensures.count_semantics_xor_negate", SBool(r == z3.Xor(sat(C(n)), negate.t)))


def t_count_lemma(ex):
    """COUNT is monotone: step of the induction (count(i+1) >= count(i)), so a count that reached 2 stays >= 2"""
    C = theory.ufun("COUNT_L", z3.IntSort(), z3.IntSort())
    mk = theory.ufun("m_L", z3.IntSort(), z3.BoolSort())
    i = z3.Int("i")
    ex.oblige("C06.lemma.COUNT.monotone_step", SBool(z3.Implies(C(i + 1) == C(i) + z3.If(mk(i), 1, 0), C(i + 1) >= C(i))), kind="lemma-step")


def t_negate(ex):
    import pkgcore.restrictions.restriction as R
    P = "C06.Negate.match"
    m = theory.ufun("match_of", Rst.sort, Val.sort, z3.BoolSort())
    inner, x = Rst.fresh("inner"), Val.fresh("x")
    it = interp(ex, P, m, {})
    out = call(it, it.target("src/pkgcore/restrictions/restriction.py", "Negate.match"), SObj(R.Negate, {"_restrict": inner}), x)
    ex.oblige(f"{P}.raises.nothing", not out.raised, kind="exceptional-postcondition")
    if not out.raised:
        r = out.value
        ex.oblige(f"{P}.ensures.is_not", SBool((r.t if isinstance(r, SBool) else z3.BoolVal(bool(r))) == z3.Not(m(inner.t, x.t))))


# ------------------------------------------------- bounded: normal forms ----
def _has_empty_group(t):
    from pkgcore.restrictions import boolean
    if isinstance(t, boolean.base):
        return len(t.restrictions) == 0 or any(_has_empty_group(c) for c in t.restrictions)
    return False


def enum_normal_forms(seed):
    from pkgcore.restrictions import boolean, restriction

    class Leaf(restriction.base):
        __slots__ = ("name",)
        type = restriction.package_type

        def __init__(self, name):
            object.__setattr__(self, "name", name)

        def match(self, assignment):
            return self.name in assignment

        def __repr__(self):
            return self.name

        def __hash__(self):
            return hash(self.name)

        def __eq__(self, o):
            return self is o
    from pkgcore.restrictions import packages as _packages
    # the constants are leaves too (restriction.AlwaysBool: packages.AlwaysTrue / AlwaysFalse)
    leaves = [Leaf(c) for c in "abcd"] + [_packages.AlwaysTrue, _packages.AlwaysFalse]
    kw = dict(node_type=restriction.package_type)
    nodes1 = []
    for cls in (boolean.AndRestriction, boolean.OrRestriction):
        for n in (0, 1, 2, 3):
            for ch in itertools.combinations(leaves, n):
                for neg in (False, True):
                    nodes1.append(cls(*ch, negate=neg, **kw))
    trees = list(nodes1)
    pool = [t for t in nodes1 if len(t.restrictions) in (1, 2)][:40] + leaves
    for cls in (boolean.AndRestriction, boolean.OrRestriction):
        for n in (2, 3):
            for ch in itertools.islice(itertools.combinations(pool, n), seed % 3, None, 3):
                trees.append(cls(*ch, **kw))
    assigns = [frozenset(c for c, b in zip("abcd", bits) if b) for bits in itertools.product((0, 1), repeat=4)]

    def ev(lit, a):
        return lit.match(a)
    cases, fails = 0, []
    for t in trees:
        forms = {}
        for meth, full in itertools.product(("dnf_solutions", "cnf_solutions", "iter_dnf_solutions", "iter_cnf_solutions"), (False, True)):
            if not hasattr(t, meth):
                continue
            name = meth + ("(full_solution_expansion=True)" if full else "")
            try:
                forms[name] = [list(c) for c in getattr(t, meth)(full)]
            except NotImplementedError:
                continue   # the combination is refused (documented for negated CNF)
            except Exception as e:
                forms[name] = e
        for a in assigns:
            cases += 1
            want = t.match(a)
            for name, f in forms.items():
                if isinstance(f, Exception):
                    got = repr(f)
                elif "dnf" in name:
                    got = any(all(ev(l, a) for l in clause) for clause in f)
                else:
                    got = all(any(ev(l, a) for l in clause) for clause in f)
                empty = _has_empty_group(t)
                if got != want and sum(1 for f_ in fails if f_["model"]["has_empty_group"] == empty) < (2 if empty else 10):
                    fails.append({"model": {"tree": str(t), "assignment": sorted(a), "form": name, "has_empty_group": empty},
                                  "detail": f"{name} of {t} evaluates to {got} under {sorted(a)} but match() is {want}; form={f}"})
    return {"name": "C06.normal_forms.bounded_enumeration", "bound": f"{len(trees)} And/Or trees of depth <= 2, <= 3 children, 4 leaves and the two constants, negation at depth 1; dnf / cnf / iter_dnf / iter_cnf, each with and without full_solution_expansion; all 16 truth assignments",
            "cases": cases, "failures": fails}


# --------------------------------- PackageRestriction: the hop from package to value ----
def t_package_restriction(ex):
    """PackageRestriction(attr, child, negate): construction keeps the child and the flag it was given, and match is the child's match of
    the pulled attribute xor negate (a missing attribute: negate)"""
    import pkgcore.restrictions.packages as PK
    from pkgcore.restrictions import restriction as R
    from snakeoil import klass
    PFILE = "src/pkgcore/restrictions/packages.py"
    P = "C06.PackageRestriction"
    m = theory.ufun("match_of", Rst.sort, Val.sort, z3.BoolSort())
    child, attrv = Rst.fresh("child"), Val.fresh("attr_value")
    negate = KBool.fresh("negate")
    missing = KBool.fresh("attribute_missing")
    it = interp(ex, P, m, {})
    it.ref_attrs[("Restriction", "type")] = lambda it_, r: R.value_type
    me = SObj(PK.PackageRestriction, {})
    it.models[PK.PackageRestriction._parse_attr] = lambda it_, self_, attr: None   # attribute path bookkeeping, not part of the truth value
    out = call(it, it.target(PFILE, "PackageRestriction.__init__"), me, "category", child, negate)
    ex.oblige(f"{P}.__init__.raises.nothing", not out.raised, kind="exceptional-postcondition")
    if out.raised:
        return
    got_child, got_neg = me.fields.get("restriction"), me.fields.get("negate")
    ex.oblige(f"{P}.__init__.ensures.keeps_the_child_it_was_given", SBool(got_child.t == child.t) if hasattr(got_child, "t") and got_child.t.sort() == child.t.sort() else False)
    ex.oblige(f"{P}.__init__.ensures.keeps_negate", SBool(got_neg.t == negate.t) if isinstance(got_neg, SBool) else (False if not isinstance(got_neg, bool) else SBool(negate.t == got_neg)))
    me2 = SObj(PK.PackageRestriction, {"restriction": child, "negate": negate})
    pkg = KRef("Package").fresh("pkg")

    class _AttrValue:
        """the pulled attribute: a concrete token (so that `attr is sentinel` is decidable: it is not the sentinel), standing for attr_value"""
    token = _AttrValue()

    def pull(it_, self_, pkg_):
        if ex.branch(missing):
            return klass.sentinel
        return token
    it2 = interp(ex, P, m, {})
    it2.ref_attrs[("Restriction", "match")] = lambda it_, r: Model(lambda it__, v, _r=r: SBool(m(_r.t, attrv.t if v is token else v.t)), "restriction.match")
    it2.models[PK.PackageRestriction._pull_attr] = pull   # the attribute value or the sentinel
    out = call(it2, it2.target(PFILE, "PackageRestriction.match"), me2, pkg)
    ex.oblige(f"{P}.match.raises.nothing", not out.raised, kind="exceptional-postcondition")
    if out.raised:
        return
    r = out.value
    rt = r.t if isinstance(r, SBool) else z3.BoolVal(bool(r))
    want = z3.If(missing.t, negate.t, z3.Xor(m(child.t, attrv.t), negate.t))
    ex.oblige(f"{P}.match.ensures.child_match_xor_negate", SBool(rt == want))


def enum_mixed_trees(seed):
    """random trees that mix package-level and value-level groups (all-of / any-of / exactly-one-of / at-most-one-of, each possibly negated,
    0..3 members, depth <= 4) over category / package / version / USE leaves built with the real constructors; match() on every package of a
    small universe against the propositional formula recorded while the tree was built (a leaf's own match is the atom of the formula)"""
    import random
    import types
    from pkgcore.restrictions import boolean, packages, values, restriction
    rnd = random.Random(seed + 606)
    from pkgcore.ebuild.cpv import Revision, ver_cmp
    from pkgcore.ebuild import restricts as R_
    class Only_in:
        """a container that answers `in` and cannot be iterated (like the lazily inverted flag sets configured packages carry)"""
        def __init__(self, members):
            self._m = frozenset(members)

        def __contains__(self, x):
            return x in self._m
    universe = [types.SimpleNamespace(category=c, package=p, fullver=v, version=v.split("-r")[0], revision=Revision(v.split("-r")[1]) if "-r" in v else None, use=frozenset(u), flags=Only_in(u))
                for c in ("sys-apps", "dev-util") for p in ("sed", "gawk") for v in ("1.0", "1.0-r1", "2.0-r1") for u in ((), ("nls",), ("nls", "acl"))]
    alive = []   # restriction objects are cached by their arguments while alive: trees built earlier stay referenced, as they do in a running program

    def version_leaf():
        """a version restriction (package level) and its meaning, computed here from the operator and not taken from the object handed back"""
        op, ver = rnd.choice(("=", "~", ">=", "<", ">")), rnd.choice(("1.0", "2.0"))
        node = R_.VersionMatch(op, ver)

        def f(pkg):
            if op == "~":
                return ver_cmp(pkg.version, None, ver, None) == 0
            c = ver_cmp(pkg.version, pkg.revision, ver, None)
            return {"=": c == 0, ">=": c >= 0, "<": c < 0, ">": c > 0}[op]
        return node, f, f"version{op}{ver}"
    leafmakers = {
        "category": [lambda n: values.StrExactMatch("sys-apps", negate=n), lambda n: values.StrGlobMatch("dev", negate=n), lambda n: values.StrRegex("^sys", negate=n)],
        "package": [lambda n: values.StrExactMatch("sed", negate=n), lambda n: values.StrGlobMatch("awk", prefix=False, negate=n)],
        "fullver": [lambda n: values.StrExactMatch("1.0", negate=n), lambda n: values.StrGlobMatch("2.", negate=n)],
        "flags": [lambda n: values.ContainmentMatch(("nls",), negate=n), lambda n: values.ContainmentMatch(("acl", "nls"), match_all=True, negate=n), lambda n: values.ContainmentMatch(("acl", "x"), negate=n)],
        "use": [lambda n: values.ContainmentMatch(("nls",), negate=n), lambda n: values.ContainmentMatch(("acl", "nls"), match_all=True, negate=n),
                lambda n: values.ContainmentMatch(("acl", "x"), negate=n)],
    }

    def combine(kind, neg, fs):
        def f(x):
            c = sum(1 for g in fs if g(x))
            if kind == "and":
                r = c == len(fs)
            elif kind == "or":
                r = c > 0
            elif kind == "one":
                r = c == 1 or not fs
            else:
                r = c <= 1
            return r != neg
        return f

    def value_tree(attr, depth):
        if depth == 0 or rnd.random() < 0.45:
            leaf = rnd.choice(leafmakers[attr])(rnd.random() < 0.3)
            if attr == "flags":
                # a containment leaf's meaning, computed here: any (or all) of its values are in the container, xor negate
                return leaf, (lambda v, _l=leaf: (all if _l.all else any)(x in v for x in _l.vals) != _l.negate), str(leaf)
            return leaf, (lambda v, _l=leaf: bool(_l.match(v))), str(leaf)
        kind = rnd.choice(("and", "or"))
        neg = rnd.random() < 0.4
        n = rnd.choice((0, 1, 1, 1, 2, 2, 3))
        kids = [value_tree(attr, depth - 1) for _ in range(n)]
        cls = values.AndRestriction if kind == "and" else values.OrRestriction
        node = cls(*[k[0] for k in kids], negate=neg)
        return node, combine(kind, neg, [k[1] for k in kids]), f"{'not ' if neg else ''}{kind}({', '.join(k[2] for k in kids)})"

    def pkg_tree(depth):
        if depth == 0 or rnd.random() < 0.4:
            if rnd.random() < 0.25:
                return version_leaf()
            attr = rnd.choice(list(leafmakers))
            vt, vf, vs = value_tree(attr, min(depth, 2))
            neg = rnd.random() < 0.3
            node = packages.PackageRestriction(attr, vt, negate=neg)
            return node, (lambda pkg, _a=attr, _f=vf, _n=neg: _f(getattr(pkg, _a)) != _n), f"{'not ' if neg else ''}{attr}:{vs}"
        kind = rnd.choice(("and", "or", "one", "atmost"))
        neg = rnd.random() < 0.35
        n = rnd.choice((0, 1, 1, 2, 2, 3))
        kids = [pkg_tree(depth - 1) for _ in range(n)]
        cls = {"and": packages.AndRestriction, "or": packages.OrRestriction, "one": boolean.JustOneRestriction, "atmost": boolean.AtMostOneOfRestriction}[kind]
        kw = {} if kind in ("and", "or") else {"node_type": restriction.package_type}
        node = cls(*[k[0] for k in kids], negate=neg, **kw)
        return node, combine(kind, neg, [k[1] for k in kids]), f"{'not ' if neg else ''}{kind}[{'; '.join(k[2] for k in kids)}]"
    cases, fails = 0, []
    for _ in range(700):
        node, f, text = pkg_tree(4)
        alive.append(node)
        for pkg in universe:
            cases += 1
            try:
                got = bool(node.match(pkg))
            except Exception as e:
                got = f"{type(e).__name__}: {e}"
            want = f(pkg)
            if got != want:
                if len(fails) < 4:
                    fails.append({"model": {"tree": text, "package": f"{pkg.category}/{pkg.package}-{pkg.fullver} use={sorted(pkg.use)}"},
                                  "detail": f"match() of {text} on {pkg.category}/{pkg.package}-{pkg.fullver} use={sorted(pkg.use)} is {got}; the formula is {want}"})
                break
    return {"name": "C06.mixed_trees.bounded_enumeration", "bound": "700 random trees of depth <= 4 mixing package-level all-of / any-of / exactly-one-of / at-most-one-of and value-level "
            "all-of / any-of groups (0..3 members, negation anywhere) over 10 category / package / full-version / USE value leaves and version restrictions (= ~ >= < >), all trees kept alive; every one of 36 packages", "cases": cases, "failures": fails}


def tasks():
    return [
        Task("C06.AndOr.match", t_and_or, [(FILE, "AndRestriction.match"), (FILE, "OrRestriction.match")]),
        Task("C06.counting.match", t_count, [(FILE, "JustOneRestriction.match"), (FILE, "AtMostOneOfRestriction.match")]),
        Task("C06.lemmas", lambda ex: (t_absorbing_lemma(ex), t_count_lemma(ex)), []),
        Task("C06.Negate.match", t_negate, [("src/pkgcore/restrictions/restriction.py", "Negate.match")]),
        Task("C06.normal_forms", None, [(FILE, n) for n in ("AndRestriction.iter_dnf_solutions", "AndRestriction.cnf_solutions",
                                                           "OrRestriction.iter_dnf_solutions", "OrRestriction.cnf_solutions")],
             enumerate=enum_normal_forms),
        Task("C06.PackageRestriction", t_package_restriction, [("src/pkgcore/restrictions/packages.py", "PackageRestriction.__init__"),
                                                                ("src/pkgcore/restrictions/packages.py", "PackageRestriction.match")], enumerate=enum_mixed_trees),
    ]


REPLAY = {}
WITNESSES = {"has_empty_group": lambda m: bool(m.get("has_empty_group"))}
