"""C10 -- REQUIRED_USE solving is sound, complete and preference-first (DESIGN.md section 4, C10)."""
import itertools
import z3
from pyvc.api import Task, call, Interp, Contract
from pyvc.interp import StarArgs
from pyvc.models import Model, ModelHost
from pyvc import models, theory
from pyvc.sym import (KStr, KBool, KRef, KSet, KSeq, SBool, SInt, SStr, SSet, SObj, MutSet, And, Or, Not, Implies, OutOfSubset, fresh_name)

PROPERTY = "C10"
FILE = "src/pkgcore/restrictions/required_use.py"
STR = z3.StringSort()
Cn = KRef("UseConstraint")

MANIFEST = {
    "text": "Proof that every constraint constructor of required_use.py computes the propositional meaning of its node from its "
            "children's meanings over the set of enabled flags (flag test, conditional of either polarity, any-of / all-of with "
            "any number of children; exactly-one-of / at-most-one-of for up to 3 children), that __to_single_constraint and "
            "__to_multiple_constraint pick the constructor matching the node class, pass the node's polarity and report exactly "
            "the node's flags as the constraint's variables (recursive calls replaced by their contract), that __wrapper "
            "converts solver assignments to the enabled set, and that find_constraint_satisfaction declares every flag exactly "
            "once with the domain the property prescribes (forced flags singleton, unforced flags both values with the "
            "preferred one last, flags outside IUSE fixed to False).  Soundness / completeness / preference order then follow "
            "from the assumed contract of snakeoil's Problem; an exhaustive native comparison with brute force backs the whole chain.",
    "note": "Trusted: snakeoil.constraints.Problem (iteration yields every assignment over the declared domains satisfying all "
            "constraints once, trying each variable's last domain value first); frozenset semantics; node classes of the "
            "restrictions package; pyvc encoder.",
}
ASSUMPTIONS = ["snakeoil Problem: complete, duplicate-free enumeration of satisfying assignments, preferring each variable's last domain value",
               "force_true and force_false are disjoint (callers' precondition)"]
mod = None


def M():
    import pkgcore.restrictions.required_use as R
    return R


def private(name):
    return getattr(M(), name)


def enabled_set():
    return MutSet(KSet(KStr).fresh("enabled_flags"), frozen=True)


def as_t(v):
    return v.t if isinstance(v, SBool) else z3.BoolVal(bool(v))


def t_flags_state(ex):
    P = "C10.__use_flags_state_any"
    it = Interp(ex, label=P)
    negate = bool(ex.choose(2))
    vals, on = MutSet(KSet(KStr).fresh("vals"), frozen=True), enabled_set()
    out = call(it, private("__use_flags_state_any"), negate, vals)
    if out.raised:
        ex.oblige(f"{P}.raises.nothing", False)
        return
    r = call(it, out.value, on)
    ex.oblige(f"{P}.check.raises.nothing", not r.raised, kind="exceptional-postcondition")
    if not r.raised:
        some_on = Not(vals.val.intersection(on.val).is_empty())
        ex.oblige(f"{P}.ensures.some_flag_enabled_xor_negate", SBool(as_t(r.value) == z3.Xor(some_on.t, z3.BoolVal(negate))))


def child_models(ex, n):
    """n abstract child constraints: their value on the enabled set is an arbitrary boolean"""
    vals = [z3.Bool(fresh_name(f"child{i}_holds")) for i in range(n)]
    return [Model(lambda it, on, _v=v: SBool(_v), f"child{i}") for i, v in enumerate(vals)], vals


def t_condition(ex):
    P = "C10.__condition"
    it = Interp(ex, label=P)
    negate = bool(ex.choose(2))
    n = ex.choose(3)
    kids, kv = child_models(ex, n)
    vals, on = MutSet(KSet(KStr).fresh("vals"), frozen=True), enabled_set()
    out = call(it, private("__condition"), negate, vals, *kids)
    if out.raised:
        ex.oblige(f"{P}.raises.nothing", False)
        return
    r = call(it, out.value, on)
    ex.oblige(f"{P}.check.raises.nothing", not r.raised, kind="exceptional-postcondition")
    if not r.raised:
        guard = vals.val.issubset(on.val).t          # `flag?` is active when all its flags are enabled, `!flag?` when they are not
        active = z3.Not(guard) if negate else guard
        want = z3.Implies(active, z3.And(*kv) if kv else z3.BoolVal(True))
        ex.oblige(f"{P}.ensures.guard_implies_payload", SBool(as_t(r.value) == want))


def t_any_all(ex):
    """any-of / all-of over an arbitrary number of children (symbolic sequence of abstract constraints)"""
    which = ("__or_constraint", "__and_constraint")[ex.choose(2)]
    P = f"C10.{which}"
    negate = bool(ex.choose(2))
    holds = theory.ufun("constraint_holds", Cn.sort, z3.SetSort(STR), z3.BoolSort())
    kids = KSeq(Cn).fresh("children")
    on = enabled_set()
    it = Interp(ex, label=P)
    it.ref_call = lambda it_, ref, arg: SBool(holds(ref.t, arg.val.t))
    out = call(it, private(which), negate, StarArgs(kids))
    if out.raised:
        ex.oblige(f"{P}.raises.nothing", False)
        return
    r = call(it, out.value, on)
    ex.oblige(f"{P}.check.raises.nothing", not r.raised, kind="exceptional-postcondition")
    if not r.raised:
        i = z3.Int(fresh_name("i"))
        dom = z3.And(i >= 0, i < z3.Length(kids.t))
        body = holds(kids.t[i], on.val.t)
        agg = z3.Exists([i], z3.And(dom, body)) if which.startswith("__or") else z3.ForAll([i], z3.Implies(dom, body))
        ex.oblige(f"{P}.ensures.{'any' if which.startswith('__or') else 'all'}_of_children_xor_negate", SBool(as_t(r.value) == z3.Xor(agg, z3.BoolVal(negate))))


def t_counting(ex):
    which = ("__just_one_constraint", "__at_most_one_constraint")[ex.choose(2)]
    P = f"C10.{which}"
    negate = bool(ex.choose(2))
    n = ex.choose(4)
    it = Interp(ex, label=P)
    kids, kv = child_models(ex, n)
    out = call(it, private(which), negate, *kids)
    if out.raised:
        ex.oblige(f"{P}.raises.nothing", False)
        return
    r = call(it, out.value, enabled_set())
    ex.oblige(f"{P}.check.raises.nothing", not r.raised, kind="exceptional-postcondition")
    if not r.raised:
        cnt = z3.Sum(*[z3.If(v, 1, 0) for v in kv]) if kv else z3.IntVal(0)
        sat = (cnt == 1) if which.startswith("__just") else (cnt <= 1)
        ex.oblige(f"{P}.ensures.count_semantics_xor_negate[{n} children]", SBool(as_t(r.value) == z3.Xor(sat, z3.BoolVal(negate))))


NODE_CTOR = {"OrRestriction": "__or_constraint", "AndRestriction": "__and_constraint", "JustOneRestriction": "__just_one_constraint",
             "AtMostOneOfRestriction": "__at_most_one_constraint"}


def recording_ctors(it, calls):
    """constructors replaced by recorders (their own meaning is proved above): which one is picked, with which arguments"""
    R = M()
    for name in ("__use_flags_state_any", "__condition", "__or_constraint", "__and_constraint", "__just_one_constraint", "__at_most_one_constraint"):
        def rec(it_, *a, _n=name):
            tok = ("constraint", _n, a)
            calls.append(tok)
            return tok
        it.models[getattr(R, name)] = rec


def t_to_single(ex):
    from pkgcore.restrictions import values, packages, boolean
    R = M()
    P = "C10.__to_single_constraint"
    kind = ("ContainmentMatch", "Conditional", "OrRestriction", "AndRestriction", "JustOneRestriction", "AtMostOneOfRestriction")[ex.choose(6)]
    it = Interp(ex, label=P)
    calls = []
    recording_ctors(it, calls)
    negate = bool(ex.choose(2))
    n = 1 + ex.choose(2)
    kids = [SObj(type("child", (), {}), {"id": i}) for i in range(n)]
    kid_vars = [MutSet(KSet(KStr).fresh(f"vars_of_child{i}"), frozen=True) for i in range(n)]
    kid_cons = [("constraint", "child", i) for i in range(n)]
    fn = it.target(FILE, "__to_single_constraint")
    # recursion replaced by the contract: a child yields (its constraint, its flags)
    me_holder = {}

    def rec_post(it_, c):
        if c is me_holder.get("me"):
            raise OutOfSubset("unexpected self recursion")
        i = c.fields["id"]
        return (kid_cons[i], kid_vars[i])
    vals = MutSet(KSet(KStr).fresh("flags"), frozen=True)
    cm = SObj(values.ContainmentMatch, {"vals": vals, "negate": negate, "all": False})
    if kind == "ContainmentMatch":
        me = cm
    elif kind == "Conditional":
        me = SObj(packages.Conditional, {"restriction": cm, "payload": tuple(kids)})
    else:
        me = SObj(getattr(boolean, kind), {"restrictions": tuple(kids), "negate": negate})
    me_holder["me"] = me
    # first call runs the body, nested calls use the contract
    state = {"depth": 0}
    real = R.__dict__["__to_single_constraint"]

    def dispatch(it_, c):
        if state["depth"] == 0:
            state["depth"] = 1
            try:
                return it_.run_closure(fn, (c,), {})
            finally:
                state["depth"] = 0
        return rec_post(it_, c)
    it.models[real] = dispatch
    out = call(it, real, me)
    ex.oblige(f"{P}.{kind}.raises.nothing", not out.raised, kind="exceptional-postcondition")
    if out.raised:
        return
    cons, variables = out.value
    all_vars = lambda: kid_vars[0].val if n == 1 else kid_vars[0].val.union(kid_vars[1].val)
    if kind == "ContainmentMatch":
        ex.oblige(f"{P}.ContainmentMatch.flag_test_with_node_polarity", cons[1] == "__use_flags_state_any" and cons[2][0] is negate and models.eq(it, cons[2][1], vals) is not False and
                  as_sbool(models.eq(it, cons[2][1], vals)))
        ex.oblige(f"{P}.ContainmentMatch.variables_are_its_flags", as_sbool(models.eq(it, variables, vals)))
    elif kind == "Conditional":
        ex.oblige(f"{P}.Conditional.condition_with_guard_polarity_and_children",
                  cons[1] == "__condition" and cons[2][0] is negate and list(cons[2][2:]) == kid_cons and as_sbool(models.eq(it, cons[2][1], vals)))
        ex.oblige(f"{P}.Conditional.variables_are_guard_and_children_flags", as_sbool(models.eq(it, variables, MutSet(vals.val.union(all_vars())))))
    else:
        ex.oblige(f"{P}.{kind}.constructor_matches_node_class", cons[1] == NODE_CTOR[kind] and cons[2][0] is negate and list(cons[2][1:]) == kid_cons)
        ex.oblige(f"{P}.{kind}.variables_are_children_flags", as_sbool(models.eq(it, variables, MutSet(all_vars()))))


def as_sbool(v):
    return v if isinstance(v, SBool) else SBool(z3.BoolVal(bool(v)))


def t_to_multiple(ex):
    from pkgcore.restrictions import values, packages, boolean
    R = M()
    P = "C10.__to_multiple_constraint"
    kind = ("Conditional", "AndRestriction", "other")[ex.choose(3)]
    it = Interp(ex, label=P)
    calls = []
    recording_ctors(it, calls)
    negate = bool(ex.choose(2))
    n = 1 + ex.choose(2)
    # a payload member may itself be a conditional of either polarity (its rules still come from the recursive call's contract)
    nested = bool(ex.choose(2))
    if nested:
        gvals = MutSet(KSet(KStr).fresh("inner_flags"), frozen=True)
        inner_neg = bool(ex.choose(2))
        kids = [SObj(packages.Conditional, {"id": i, "restriction": SObj(values.ContainmentMatch, {"vals": gvals, "negate": inner_neg, "all": False}),
                                            "payload": (SObj(type("child", (), {}), {"id": 10 + i}),)}) for i in range(n)]
    else:
        kids = [SObj(type("child", (), {}), {"id": i}) for i in range(n)]
    # each child contributes one or two (constraint, flags) rules
    per = [1 + ex.choose(2) for _ in range(n)]
    rules = {i: [(("constraint", "child", i, j), MutSet(KSet(KStr).fresh(f"vars{i}_{j}"), frozen=True)) for j in range(per[i])] for i in range(n)}
    for i in range(n):
        rules[10 + i] = [(("constraint", "grandchild", i), MutSet(KSet(KStr).fresh(f"gvars{i}"), frozen=True))]
    fn = it.target(FILE, "__to_multiple_constraint")
    real = R.__dict__["__to_multiple_constraint"]
    single = R.__dict__["__to_single_constraint"]
    state = {"depth": 0}

    def dispatch(it_, c):
        if state["depth"] == 0:
            state["depth"] = 1
            try:
                return it_.run_closure(fn, (c,), {})
            finally:
                state["depth"] = 0
        from pyvc.interp import GenResult
        return GenResult(list(rules[c.fields["id"]]))
    it.models[real] = dispatch
    vals = MutSet(KSet(KStr).fresh("flags"), frozen=True)
    cm = SObj(values.ContainmentMatch, {"vals": vals, "negate": negate, "all": False})
    single_result = (("constraint", "single"), MutSet(KSet(KStr).fresh("single_vars"), frozen=True))
    it.models[single] = lambda it_, c: single_result
    if kind == "Conditional":
        me = SObj(packages.Conditional, {"restriction": cm, "payload": tuple(kids)})
    elif kind == "AndRestriction":
        me = SObj(boolean.AndRestriction, {"restrictions": tuple(kids), "negate": False})
    else:
        me = SObj(boolean.OrRestriction, {"restrictions": tuple(kids), "negate": negate})
    out = call(it, real, me)
    ex.oblige(f"{P}.{kind}.raises.nothing", not out.raised, kind="exceptional-postcondition")
    if out.raised:
        return
    got = models.iter_concrete(it, out.value)
    flat = [r for i in range(n) for r in rules[i]]
    if kind == "other":
        ex.oblige(f"{P}.other_nodes_become_one_constraint", len(got) == 1 and got[0] is single_result)
    elif kind == "AndRestriction":
        ex.oblige(f"{P}.AndRestriction.children_rules_concatenated", len(got) == len(flat) and all(g is f for g, f in zip(got, flat)))
    else:
        ok = len(got) == len(flat)
        ex.oblige(f"{P}.Conditional.one_guarded_rule_per_payload_rule", ok)
        if ok:
            for g, (c0, v0) in zip(got, flat):
                cons, variables = g
                ex.oblige(f"{P}.Conditional.each_rule_guarded_with_node_polarity",
                          cons[1] == "__condition" and cons[2][0] is negate and list(cons[2][2:]) == [c0] and as_sbool(models.eq(it, cons[2][1], vals)))
                ex.oblige(f"{P}.Conditional.variables_are_guard_and_rule_flags", as_sbool(models.eq(it, variables, MutSet(vals.val.union(v0.val)))))


def t_setup(ex):
    """find_constraint_satisfaction: the variables declared to the solver"""
    R = M()
    P = "C10.find_constraint_satisfaction"
    it = Interp(ex, label=P)
    iuse = MutSet(KSet(KStr).fresh("iuse"))
    ft, ff, pt = (MutSet(KSet(KStr).fresh(n), frozen=True) for n in ("force_true", "force_false", "prefer_true"))
    ex.assume(ft.val.intersection(ff.val).is_empty())
    cvars = MutSet(KSet(KStr).fresh("constraint_flags"), frozen=True)
    decls = []
    declared = {"all": SSet(z3.EmptySet(STR), KSet(KStr))}

    class Vars(ModelHost):
        def getattr(self, it_, name):
            if name == "keys":
                return Model(lambda it__: MutSet(declared["all"], frozen=True), "variables.keys")
            raise OutOfSubset(name)

    class Prob(ModelHost):
        def getattr(self, it_, name):
            if name == "add_variable":
                def add(it__, domain, *names):
                    s = names[0].seq if names and isinstance(names[0], StarArgs) else models.set_term(it__, list(names))
                    s = s.val if isinstance(s, MutSet) else s
                    if s is None:
                        return
                    # snakeoil's Problem asserts that a variable is declared once
                    ex.oblige(f"{P}.add_variable.never_declares_a_flag_twice", s.intersection(declared["all"]).is_empty(), kind="callee-precondition")
                    decls.append((tuple(domain), s))
                    declared["all"] = declared["all"].union(s)
                return Model(add, "Problem.add_variable")
            if name == "add_constraint":
                return Model(lambda it__, c, v: None, "Problem.add_constraint")
            if name == "variables":
                return Vars()
            raise OutOfSubset(name)

        def iterate(self, it_):
            return []
    it.models[R.Problem] = lambda it_: Prob()
    it.models[R._compiled_constraints] = lambda it_, r: ((("constraint",), cvars),)
    out = call(it, it.target(FILE, "find_constraint_satisfaction"), "restricts", iuse, force_true=ft, force_false=ff, prefer_true=pt)
    ex.oblige(f"{P}.raises.nothing", not out.raised, kind="exceptional-postcondition")
    if out.raised:
        return
    x = z3.Const(fresh_name("flag"), STR)

    def dom_of(xt):
        """domain the flag was declared with, as (first, last) booleans, None if undeclared"""
        return [(d, z3.IsMember(xt, s.t)) for d, s in decls]
    inI, inT, inF, inP = (z3.IsMember(x, s.val.t) for s in (iuse, ft, ff, pt))
    inC = z3.IsMember(x, cvars.val.t)
    got = dom_of(x)

    def declared_as(dom):
        return z3.Or(*[m for d, m in got if d == dom]) if any(d == dom for d, _ in got) else z3.BoolVal(False)
    ex.oblige(f"{P}.ensures.every_iuse_or_constraint_flag_is_declared", SBool(z3.Implies(z3.Or(inI, inC), z3.IsMember(x, declared["all"].t))))
    ex.oblige(f"{P}.ensures.forced_true_flags_are_fixed_true", SBool(z3.Implies(z3.And(inI, inT), declared_as((True,)))))
    ex.oblige(f"{P}.ensures.forced_false_flags_are_fixed_false", SBool(z3.Implies(z3.And(inI, inF), declared_as((False,)))))
    ex.oblige(f"{P}.ensures.preferred_true_unforced_flags_try_true_first", SBool(z3.Implies(z3.And(inI, inP, z3.Not(inT), z3.Not(inF)), declared_as((False, True)))))
    ex.oblige(f"{P}.ensures.other_unforced_flags_try_false_first", SBool(z3.Implies(z3.And(inI, z3.Not(inP), z3.Not(inT), z3.Not(inF)), declared_as((True, False)))))
    ex.oblige(f"{P}.ensures.flags_outside_iuse_are_fixed_false", SBool(z3.Implies(z3.And(inC, z3.Not(inI)), declared_as((False,)))))


def t_wrapper(ex):
    P = "C10.__wrapper"
    it = Interp(ex, label=P)
    seen = []
    inner = Model(lambda it_, on: (seen.append(on), True)[1], "constraint")
    out = call(it, private("__wrapper"), inner)
    if out.raised:
        ex.oblige(f"{P}.raises.nothing", False)
        return
    a, b = KBool.fresh("a_value"), KBool.fresh("b_value")
    r = call(it, out.value, a=a, b=b)
    ex.oblige(f"{P}.check.raises.nothing", not r.raised, kind="exceptional-postcondition")
    if not r.raised and seen:
        on = seen[0]
        t = models.set_term(it, on)
        has = lambda f: (z3.IsMember(z3.StringVal(f), t.t) if t is not None else z3.BoolVal(False))
        ex.oblige(f"{P}.ensures.enabled_set_is_the_true_valued_flags", SBool(z3.And(has("a") == a.t, has("b") == b.t)))


# -------------------------------------------------------- bounded stand-in ----
def enum_required_use(seed):
    from pkgcore.ebuild.eapi import get_eapi
    from pkgcore.ebuild import conditionals
    from pkgcore.ebuild.atom import atom
    from pkgcore.restrictions import values, boolean, packages
    from pkgcore.restrictions.required_use import find_constraint_satisfaction
    strings = ["a", "!a", "a b", "|| ( a b )", "^^ ( a b c )", "?? ( a b )", "a? ( b )", "!a? ( b )", "a? ( b? ( c ) )", "!a? ( !b? ( c ) )",
               "a? ( !b? ( c ) )", "!a? ( b? ( !c ) )", "|| ( a? ( b ) c )", "^^ ( a ( b c ) )", "a? ( || ( b c ) ) !c? ( a )", "?? ( a b c ) !a? ( !b? ( !c? ( d ) ) )",
               "( a b ) !d", "a? ( b ) b? ( a )", "|| ( !a !b ) c? ( a b )"]

    def parse(s):
        return conditionals.DepSet.parse(s, values.ContainmentMatch, operators={"||": boolean.OrRestriction, "": boolean.AndRestriction,
                                                                                 "^^": boolean.JustOneRestriction, "??": boolean.AtMostOneOfRestriction},
                                         element_func=_flag_node, transitive_use_atoms=True) if False else None

    def _flag_node(x):
        return values.ContainmentMatch(x[1:], negate=True) if x.startswith("!") else values.ContainmentMatch(x)

    def ev(node, on):
        if isinstance(node, values.ContainmentMatch):
            return (not set(node.vals).isdisjoint(on)) != node.negate
        if isinstance(node, packages.Conditional):
            g = set(node.restriction.vals).issubset(on) != node.restriction.negate
            return (not g) or all(ev(c, on) for c in node.payload)
        k = [ev(c, on) for c in node.restrictions]
        if isinstance(node, boolean.OrRestriction):
            r = any(k)
        elif isinstance(node, boolean.JustOneRestriction):
            r = sum(k) == 1
        elif isinstance(node, boolean.AtMostOneOfRestriction):
            r = sum(k) <= 1
        else:
            r = all(k)
        return r != node.negate
    def ev_text(text, on):
        """the constraint as written (PMS 8.2: all-of, || any-of, ^^ exactly-one-of, ?? at-most-one-of, flag? / !flag? groups), read by this
        reference alone: a one-member group keeps the meaning of its operator (?? ( a ) holds whatever a is)"""
        toks = text.split()
        pos = 0

        def group(op):
            nonlocal pos
            vals = []
            while pos < len(toks) and toks[pos] != ")":
                t = toks[pos]
                pos += 1
                if t in ("||", "^^", "??") or t == "(" or t.endswith("?"):
                    if t != "(":
                        assert toks[pos] == "("
                        pos += 1
                    inner = group(t if t != "(" else "")
                    assert toks[pos] == ")"
                    pos += 1
                    if t.endswith("?") and t not in ("??",):
                        flag = t[:-1]
                        active = (flag[1:] not in on) if flag.startswith("!") else (flag in on)
                        vals.append((not active) or inner)
                    else:
                        vals.append(inner)
                else:
                    vals.append((t[1:] not in on) if t.startswith("!") else (t in on))
            if op == "||":
                return any(vals)
            if op == "^^":
                return sum(vals) == 1
            if op == "??":
                return sum(vals) <= 1
            return all(vals)
        r = group("")
        assert pos == len(toks)
        return r
    # a member written twice counts twice in the counting groups
    strings += ["^^ ( a a b )", "^^ ( a a )", "?? ( a a )", "?? ( !a !a b )", "^^ ( ( a b ) ( a b ) c )", "|| ( a a )", "?? ( a a b ) c"]
    strings += ["?? ( a )", "?? ( a ) b", "^^ ( a )", "|| ( a )", "b? ( ?? ( a ) )", "?? ( ( a b ) )", "|| ( ( a b ) )", "?? ( !a )"]
    from pkgcore.test.misc import FakePkg
    cases, fails = 0, []
    for s in strings:
        pkg = FakePkg("cat/pkg-1", eapi="8")
        try:
            from pkgcore.ebuild.ebuild_src import base as ebase
            ds = conditionals.DepSet.parse(s, values.ContainmentMatch, operators={"||": boolean.OrRestriction, "": boolean.AndRestriction,
                                           "^^": boolean.JustOneRestriction, "??": boolean.AtMostOneOfRestriction}, element_func=_flag_node)
        except Exception as e:
            if len(fails) < 4:
                fails.append({"model": {"required_use": s}, "detail": f"could not parse {s!r}: {e!r}"})
            continue
        flags = sorted({t.strip("!?()") for t in s.split() if t.strip("!?()|^ ")} - {"", "||", "^^", "??"})
        for iuse_extra in (set(), {"z"}, None):
            # None: the first flag of the expression is not in IUSE (it must then stay disabled)
            iuse = (set(flags) | iuse_extra) if iuse_extra is not None else set(flags[1:])
            for prefer in ((), tuple(flags[:1]), tuple(flags)):
                for forced, forced_off in (((), ()), ((flags[-1],), ()), ((), (flags[0],)), ((), tuple(flags[:2])), ((flags[-1],), (flags[0],))):
                    if set(forced) & set(forced_off):
                        continue  # a flag forced both ways is outside the statement
                    cases += 1
                    sols = list(find_constraint_satisfaction(ds, set(iuse), force_true=forced, force_false=forced_off, prefer_true=prefer))
                    want = []
                    names = sorted(iuse | set(flags))
                    if not set(forced) <= iuse:
                        continue
                    for bits in itertools.product((False, True), repeat=len(names)):
                        asg = dict(zip(names, bits))
                        if all(asg[f] for f in forced) and not any(asg[f] for f in forced_off if f in asg) and not any(asg[f] for f in names if f not in iuse) \
                                and ev_text(s, {k for k, v in asg.items() if v}):
                            want.append(asg)
                    key = lambda d: tuple(sorted(d.items()))
                    if sorted(map(key, sols)) != sorted(map(key, want)):
                        if len(fails) < 4:
                            miss = [dict(k) for k in set(map(key, want)) - set(map(key, sols))][:2]
                            extra = [dict(k) for k in set(map(key, sols)) - set(map(key, want))][:2]
                            fails.append({"model": {"required_use": s, "iuse": sorted(iuse), "forced": list(forced), "forced_off": list(forced_off), "prefer_true": list(prefer)},
                                          "detail": f"REQUIRED_USE {s!r} iuse={sorted(iuse)} force_true={list(forced)} force_false={list(forced_off)} prefer_true={list(prefer)}: missing solutions {miss}, unsound solutions {extra}"})
                        continue
                    if want:
                        ideal = {f: ((f in prefer or f in forced) and f in iuse and f not in forced_off) for f in names}
                        if ideal in want and sols[0] != ideal and len(fails) < 4:
                            fails.append({"model": {"required_use": s, "prefer_true": list(prefer)},
                                          "detail": f"REQUIRED_USE {s!r} prefer_true={list(prefer)}: the preferred assignment {ideal} satisfies it but {sols[0]} came first"})
    return {"name": "C10.find_constraint_satisfaction.bounded_enumeration", "bound": f"{len(strings)} REQUIRED_USE strings (<= 4 flags, nesting <= 3, every operator, both polarities) x IUSE variants x preferences x forced-on / forced-off flags (overlapping with the preferences), against brute force over the constraint as written (read by a reference reader of the REQUIRED_USE grammar, one-member groups included)",
            "cases": cases, "failures": fails}


def tasks():
    return [
        Task("C10.__use_flags_state_any", t_flags_state, [(FILE, "__use_flags_state_any")]),
        Task("C10.__condition", t_condition, [(FILE, "__condition")]),
        Task("C10.any_all", t_any_all, [(FILE, "__or_constraint"), (FILE, "__and_constraint")]),
        Task("C10.counting", t_counting, [(FILE, "__just_one_constraint"), (FILE, "__at_most_one_constraint")]),
        Task("C10.__to_single_constraint", t_to_single, [(FILE, "__to_single_constraint")]),
        Task("C10.__to_multiple_constraint", t_to_multiple, [(FILE, "__to_multiple_constraint")]),
        Task("C10.__wrapper", t_wrapper, [(FILE, "__wrapper")]),
        Task("C10.find_constraint_satisfaction", t_setup, [(FILE, "find_constraint_satisfaction")], enumerate=enum_required_use),
    ]


REPLAY = {}
