"""C42 -- package move updates follow move chains in file order (DESIGN.md section 4, C42)."""
import itertools
import os
import random

PROPERTY = "C42"
PU = "src/pkgcore/ebuild/pkg_updates.py"
LEVEL = "other"
EXPLANATION = ("bounded stand-in only: read_updates threads every package name's commands through nested, aliased deques (a move appends a fresh deque to the "
               "source chain and makes the same object the target's new tail); the self-built verification-condition generator has no heap model for aliased "
               "mutable containers, so no obligation is discharged deductively.  The real function is run on every command sequence of a small alphabet and "
               "compared with a sequential reference reading of the statement.")
from pyvc.api import Task

MANIFEST = {
    "text": "Bounded stand-in: every sequence of up to 4 update lines over 3 package names (6 moves, 3 slotmoves, malformed / blank / "
            "versioned lines), laid out in one file and split over two quarter-named files created in either order on disk, plus seeded "
            "random longer sequences over 4 names and 3 files, is read with the real read_updates and compared, per package name, with "
            "a sequential walk: start at the name, take every not-redundant move or slotmove of the current name in order, follow "
            "each move to its target and go on from that line.",
    "note": "Trusted: atom parsing (C03), snakeoil listdir_files / iflatten_instance.  Files are applied in the order read_updates sorts "
            "them (by name); see the known finding about quarter files of different years.",
}
ASSUMPTIONS = ["a move or slotmove whose source name was already moved away earlier is redundant and ignored"]

NAMES = ("cat/a", "cat/b", "cat/c")


def ref_commands(lines):
    """lines: the update lines in application order -> {name: [commands]}"""
    from pkgcore.ebuild.atom import atom
    parsed = []
    moved = set()
    for raw in lines:
        l = raw.strip()
        if not l:
            parsed.append(None)
            continue
        t = l.split()
        cmd = None
        try:
            if t[0] == "move" and len(t) == 3:
                s, d = atom(t[1]), atom(t[2])
                if s.fullver is None and d.fullver is None and s.key not in moved:
                    cmd = ("move", s.key, d.key, ("move", s, d))
                    moved.add(s.key)
            elif t[0] == "slotmove" and len(t) == 4:
                s = atom(t[1])
                if s.key not in moved and s.slot is None:
                    atom(f"{s.key}:{t[3]}")
                    cmd = ("slotmove", s.key, None, ("slotmove", atom(f"{s}:{t[2]}"), t[3]))
        except Exception:
            cmd = "raises"
        parsed.append(cmd)
    names = {c[1] for c in parsed if isinstance(c, tuple)} | {c[2] for c in parsed if isinstance(c, tuple) and c[2]}
    out = {}
    for n in names:
        cur, cmds = n, []
        for c in parsed:
            if isinstance(c, tuple) and c[1] == cur:
                cmds.append(c[3])
                if c[0] == "move":
                    cur = c[2]
        if cmds:
            out[n] = cmds
    return out, any(c == "raises" for c in parsed)


def _run(files, order, scratch, eapi="8", last_newline=True):
    """files: [(name, [lines])]; order: creation order on disk"""
    import shutil
    from pkgcore.ebuild.pkg_updates import read_updates
    from pkgcore.ebuild.eapi import get_eapi
    d = os.path.join(scratch, "updates")
    shutil.rmtree(d, ignore_errors=True)
    os.makedirs(d)
    for i in order:
        name, lines = files[i]
        with open(os.path.join(d, name), "w") as f:
            text = "".join(l + "\n" for l in lines)
            f.write(text if last_newline else text[:-1])   # a file whose last line has no line end still holds that line
    return read_updates(d, get_eapi(eapi))


# (earlier, later) quarter files: same year with and without 4Q, across a year boundary, several years apart
PAIRS = [("1Q-2020", "3Q-2020"), ("3Q-2020", "4Q-2020"), ("1Q-2020", "4Q-2020"), ("4Q-2019", "1Q-2020"), ("2Q-2020", "1Q-2021"), ("4Q-2018", "4Q-2020"), ("3Q-2019", "2Q-2020")]
TRIPLES = [("1Q-2021", "2Q-2021", "4Q-2021"), ("3Q-2020", "4Q-2020", "1Q-2021"), ("4Q-2019", "2Q-2020", "4Q-2020"), ("2Q-2019", "1Q-2020", "3Q-2020")]


def enum_updates(seed):
    import logging
    import shutil
    import tempfile
    scratch = tempfile.mkdtemp(prefix="c42.", dir=os.environ.get("PYVC_SCRATCH", "/var/tmp"))
    logging.getLogger("pkgcore").setLevel(logging.CRITICAL)
    thorough = os.environ.get("VERIF_TIER") == "thorough"
    fails, cases = [], 0
    moves = [f"move {a} {b}" for a in NAMES for b in NAMES if a != b]
    # slotmoves name their packages by any versionless-slot atom: with an operator and a version the line still belongs to that package name
    slots = [f"slotmove {a} 0 1" for a in NAMES] + ["slotmove <cat/a-2 0 1", "slotmove =cat/b-1.0 0 2"]
    junk = ["", "move cat/a", "move =cat/a-1 cat/b", "slotmove cat/a:0 0 1", "frobnicate cat/a cat/b", " move cat/a cat/b"]
    CMDS = moves + slots + junk[:3]

    def norm(d):
        return {k: [(c[0], str(c[1]), str(c[2])) for c in v] for k, v in d.items()}

    def when(name):
        q, y = name.split("Q-")
        return int(y), int(q)

    def check(files, order, label, eapi="8"):
        # EAPI <= 7: quarter-named files, applied by date (year, then quarter); EAPI 8: any name, applied in name order
        nonlocal cases
        cases += 1
        applied = [l for name, lines in sorted(files, key=(lambda f: when(f[0])) if eapi == "7" else None) for l in lines]
        want, bad = ref_commands(applied)
        if bad:
            return
        for last_newline in ((True, False) if cases % 3 == 0 and all(lines and lines[-1] for _, lines in files) else (True,)):
            try:
                got = _run(files, order, scratch, eapi=eapi, last_newline=last_newline)
            except Exception as e:
                if len(fails) < 5:
                    fails.append({"model": {"files": files, "created_in_order": order, "eapi": eapi}, "detail": f"read_updates raised {type(e).__name__}: {e} on {files}"})
                return
            if norm(got) != norm(want) and len(fails) < 5:
                diff = {k: (norm(got).get(k), norm(want).get(k)) for k in set(got) | set(want) if norm(got).get(k) != norm(want).get(k)}
                fails.append({"model": {"files": files, "created_in_order": order, "eapi": eapi, "last_line_terminated": last_newline},
                              "detail": f"update files {files}{'' if last_newline else ' (last line of each file without a line end)'} under EAPI {eapi} ({label}): per name (reported, reference applying the files "
                                        f"{'by date' if eapi == '7' else 'in name order'}): {diff}"})
    try:
        for n in range(1, 5):
            pool = CMDS if n <= 3 else moves + slots[:2] + slots[3:4]
            for seq in itertools.product(pool, repeat=n):
                if n == 4 and not thorough and hash(seq) % 7:
                    continue
                check([("1Q-2020", list(seq))], [0], "one file")
                if n >= 2 and (thorough or hash(seq) % 5 == 0):
                    k = n // 2
                    fs = [("1Q-2020", list(seq[:k])), ("3Q-2020", list(seq[k:]))]
                    check(fs, [0, 1], "two files")
                    check(fs, [1, 0], "two files, created in reverse order")
                    # the same split under every kind of quarter pair (same year incl. 4Q, across a year, name order != date order)
                    first, second = PAIRS[hash(seq) // 5 % len(PAIRS)]
                    fs = [(first, list(seq[:k])), (second, list(seq[k:]))]
                    check(fs, [1, 0], "two quarter files", eapi="7")
        rnd = random.Random(seed)
        names4 = NAMES + ("cat/d",)
        pool = [f"move {a} {b}" for a in names4 for b in names4 if a != b] + [f"slotmove {a} {x} {y}" for a in names4 for x, y in (("0", "1"), ("1", "2"))] + junk \
            + [f"slotmove {op}{a}-{v} 0 3" for a in names4 for op, v in (("<", "2"), ("=", "1.0"), (">=", "1-r1"), ("~", "3"))]
        for _ in range(3000 if thorough else 600):
            seq = [rnd.choice(pool) for _ in range(rnd.choice((5, 7, 9)))]
            cut = sorted(rnd.sample(range(len(seq) + 1), 2))
            fs = [("1Q-2021", seq[:cut[0]]), ("2Q-2021", seq[cut[0]:cut[1]]), ("4Q-2021", seq[cut[1]:])]
            check(fs, rnd.sample(range(3), 3), "three files, random creation order")
            three = rnd.choice(TRIPLES)
            fs = [(three[0], seq[:cut[0]]), (three[1], seq[cut[0]:cut[1]]), (three[2], seq[cut[1]:])]
            check(fs, rnd.sample(range(3), 3), "three quarter files, random creation order", eapi="7")
        # quarter files of different years: chronological order is what the statement's "sequence of files" means
        fs = [("4Q-2019", ["move cat/a cat/b"]), ("1Q-2020", ["move cat/b cat/c"])]
        cases += 1
        got = _run(fs, [0, 1], scratch, eapi="7")   # EAPI <= 7: quarter-named files, applied by date (EAPI 8 takes any name, in name order)
        want, _ = ref_commands(["move cat/a cat/b", "move cat/b cat/c"])
        if norm(got) != norm(want) and len(fails) < 6:
            fails.append({"model": {"files": fs, "quarter_files_sorted_by_name_not_by_date": True},
                          "detail": f"update files {fs}: 4Q-2019 precedes 1Q-2020 in time, the chain for cat/a is {norm(want).get('cat/a')}; reported {norm(got).get('cat/a')} (files are applied in name order, 1Q-2020 first)"})
    finally:
        shutil.rmtree(scratch, ignore_errors=True)
    return {"name": "C42.read_updates.bounded_enumeration", "bound": f"every sequence of <= 3 lines over {len(CMDS)} commands (plain and operator-and-version slotmoves among them) and {'every' if thorough else 'a 1/7 sample of the'} 4-line sequences over {len(moves) + 2} commands (3 names), "
            "as one file and split over two files created in both orders (EAPI 8 naming) and over 7 kinds of quarter-file pairs applied by date (EAPI 7: same year with and without 4Q, across years); seeded random sequences of 5..9 lines over 4 names in 3 files under both conventions", "cases": cases, "failures": fails}


def tasks():
    return [Task("C42.read_updates", None, [(PU, "read_updates"), (PU, "_process_updates"), (PU, "_scan_directory")], enumerate=enum_updates)]


REPLAY = {}
WITNESSES = {"quarter_files_sorted_by_name_not_by_date": lambda m: bool(m.get("quarter_files_sorted_by_name_not_by_date"))}
