"""C44 -- query strings select exactly the packages they describe (DESIGN.md section 4, C44)."""
import fnmatch
import itertools
import random
import re
from pyvc.api import Task

PROPERTY = "C44"
PR = "src/pkgcore/util/parserestrict.py"
LEVEL = "other"
EXPLANATION = ("bounded stand-in only: parse_match is string surgery (rsplit / partition / re.escape + replace) whose meaning is a regular-language statement "
               "about the query text; relating re.escape(token).replace('\\\\*', '.*') to 'shell pattern over the whole string' for all tokens needs an inductive "
               "argument over the token that the self-built generator cannot state.  The real parse_match is run on systematically generated queries and compared "
               "with an fnmatch-based reference.  Under contract and proved for every text / token: collect_ops (the operator prefix is split off exactly: "
               "loop invariant over the scanned prefix) and convert_glob's dispatch (no restriction exactly for '' and '*', an exact match on the token itself "
               "exactly when it holds no star, ParseError exactly when valid_globbing refuses the glob, otherwise the pattern '^' + re.escape(token) with "
               "every '\\*' replaced by '.*' + '$' applied with match=True); what re then accepts for that pattern stays with the bounded stand-in.")

MANIFEST = {
    "text": "Bounded stand-in: every glob of <= 4 symbols over {a, b, +, ., -, 1, *} in the category, the package, the slot and the sub-slot "
            "position, alone and combined, with and without a repository, plus version operators on globbed and plain targets and plain "
            "atom strings, is parsed with the real parse_match and evaluated on a package universe built to separate literal from "
            "regular-expression readings of + and . (gtk, gtk+, gtkk, a.b, aXb ...); the selection must equal an fnmatch.fnmatchcase "
            "reference on the fields plus the version / repository constraint; strings containing '!' must raise ParseError.",
    "note": "Proved for all inputs (16 obligations): collect_ops and convert_glob's dispatch, with valid_globbing and re.escape as uninterpreted functions and str.replace as "
            "SMT-LIB str.replace_all; the decision for the property as a whole stays with the bounded stand-in.  Trusted: fnmatch.fnmatchcase as the meaning of 'whole-string shell pattern with *', atom matching (C04), VersionMatch (C07).",
}
ASSUMPTIONS = ["convert_glob's contract treats re.escape and valid_globbing as uninterpreted functions and the meaning of the built pattern under re as given (covered by the bounded stand-in only)",
               "only * is a wildcard in query globs; every other admissible character (word characters, - . +) is literal"]


def universe():
    from pkgcore.test.misc import FakePkg, FakeRepo
    repos = {"gentoo": FakeRepo(repo_id="gentoo"), "other": FakeRepo(repo_id="other")}
    out = []
    cats = ["a", "ab", "a+b", "aab", "a.b", "aXb", "b-1", "dev-a", "a1"]
    pkgs = ["a", "ab", "a+b", "aab", "a_b", "aXb", "gtk", "gtk+", "gtkk", "b-a", "a1", "b"]
    for c in cats[:5]:
        for p in pkgs:
            out.append(FakePkg(f"{c}/{p}-1", slot="0", subslot="0", repo=repos["gentoo"]))
    for c in cats[5:]:
        out.append(FakePkg(f"{c}/ab-2", slot="a+b", subslot="1.5", repo=repos["other"]))
        out.append(FakePkg(f"{c}/a-1.5", slot="ab", subslot="a.b", repo=repos["gentoo"]))
    out.append(FakePkg("a/ab-3", slot="aab", subslot="aXb", repo=repos["other"]))
    # revisions of versions that the operator queries name: ~ must take them, = must not
    for cpv in ("a/ab-2-r1", "a/ab-1.5-r3", "dev-a/a-1.5-r1", "a/gtk-1.5", "a/gtk-1.5-r2", "a/gtk+-2-r1"):
        out.append(FakePkg(cpv, slot="0", subslot="0", repo=repos["gentoo"]))
    return out


def enum_queries(seed):
    import os
    from pkgcore.util.parserestrict import parse_match, ParseError
    from pkgcore.ebuild.cpv import ver_cmp
    thorough = os.environ.get("VERIF_TIER") == "thorough"
    pkgs = universe()
    fails, cases = [], 0
    stat = {"ok": 0, "rejected": 0, "crash": 0}
    SYM = ["a", "b", "+", ".", "-", "1", "*"]

    def note(model, detail):
        if len(fails) < 5:
            fails.append({"model": model, "detail": detail})

    def valid_token(t):
        return re.fullmatch(r"[\w+.*-]+", t) is not None

    def run(q, want_fn, must_parse=False):
        nonlocal cases
        cases += 1
        try:
            r = parse_match(q)
        except ParseError as e:
            stat["rejected"] += 1
            if must_parse:   # a well-formed query: rejecting it selects nothing where packages are expected
                want = sorted(p.cpvstr for p in pkgs if want_fn(p))
                note({"query": q}, f"parse_match({q!r}) rejects a well-formed query ({e}); it should select {want[:6]}{'...' if len(want) > 6 else ''} ({len(want)} packages)")
            return "rejected"
        except Exception as e:
            stat["crash"] += 1
            note({"query": q}, f"parse_match({q!r}) raised {type(e).__name__}: {e}")
            return "crash"
        stat["ok"] += 1
        got = sorted(f"{p.cpvstr}:{p.slot}/{p.subslot}::{p.repo.repo_id}" for p in pkgs if r.match(p))
        want = sorted(f"{p.cpvstr}:{p.slot}/{p.subslot}::{p.repo.repo_id}" for p in pkgs if want_fn(p))
        if got != want:
            note({"query": q}, f"parse_match({q!r}) selects {got[:6]}{'...' if len(got) > 6 else ''} ({len(got)} packages); the whole-string shell-pattern reading selects {want[:6]}{'...' if len(want) > 6 else ''} ({len(want)})")
        return "ok"
    globs = ["".join(t) for n in range(1, 5) for t in itertools.product(SYM, repeat=n) if "*" in t]
    rnd = random.Random(seed)
    if not thorough:
        globs = [g for g in globs if len(g) <= 3] + rnd.sample([g for g in globs if len(g) == 4], 250)
    G = fnmatch.fnmatchcase
    for g in globs:
        if g.startswith(("-", ".", "+")) and False:
            continue
        # package position (a lone token) -- tokens that look like version operators are atoms, skip those shapes
        run(g, lambda p, g=g: G(p.package, g))
        run(f"{g}/*", lambda p, g=g: G(p.category, g))
        run(f"*/{g}", lambda p, g=g: G(p.package, g))
        run(f"a*/{g}", lambda p, g=g: G(p.category, "a*") and G(p.package, g))
        run(f"*:{g}", lambda p, g=g: G(p.slot, g))
        run(f"*:*/{g}", lambda p, g=g: G(p.subslot, g))
        # a glob in one of the two positions only: literal (or empty) slot with a globbed sub-slot and the other way round
        run(f"*:ab/{g}", lambda p, g=g: p.slot == "ab" and G(p.subslot, g))
        run(f"*:0/{g}", lambda p, g=g: p.slot == "0" and G(p.subslot, g))
        run(f"*:/{g}", lambda p, g=g: G(p.subslot, g))
        run(f"*:{g}/a.b", lambda p, g=g: G(p.slot, g) and p.subslot == "a.b")
        run(f"*/{g}::other", lambda p, g=g: G(p.package, g) and p.repo.repo_id == "other")
    # globs with several stars inside the token (the generated ones above are at most four characters long): well-formed, so they must parse
    for g in ("a*b*c", "g*t*k", "*a*b*c*", "a*+*b", "a*.*b", "l*i*b*x", "a*b*", "*a*b", "a*a*a*a", "g*k*", "a*b*c*d*e"):
        run(f"*/{g}", lambda p, g=g: G(p.package, g), must_parse=True)
        run(f"{g}/*", lambda p, g=g: G(p.category, g), must_parse=True)
        run(f"*:{g}", lambda p, g=g: G(p.slot, g), must_parse=True)
        run(f"*:*/{g}", lambda p, g=g: G(p.subslot, g), must_parse=True)
        run(f"a*/{g}::other", lambda p, g=g: G(p.category, "a*") and G(p.package, g) and p.repo.repo_id == "other", must_parse=True)
    # version operators on globbed targets, plain atoms, short names
    for op, cmpf in ((">=", lambda c: c >= 0), ("<", lambda c: c < 0), ("=", lambda c: c == 0), ("<=", lambda c: c <= 0), (">", lambda c: c > 0), ("~", None)):
        def vmatch(p, ver, cmpf=cmpf):
            if cmpf is None:   # ~ : the same version, any revision
                return ver_cmp(p.version, None, ver, None) == 0
            return cmpf(ver_cmp(p.version, p.revision, ver, None))
        for g in ("a*", "*b", "*", "gtk*"):
            run(f"{op}*/{g}-1.5", lambda p, g=g, vmatch=vmatch: G(p.package, g) and vmatch(p, "1.5"), must_parse=True)
            run(f"{op}a*/{g}-2", lambda p, g=g, vmatch=vmatch: G(p.category, "a*") and G(p.package, g) and vmatch(p, "2"), must_parse=True)
        run(f"{op}ab-2", lambda p, vmatch=vmatch: p.package == "ab" and vmatch(p, "2"), must_parse=True)
        run(f"{op}gtk-1.5", lambda p, vmatch=vmatch: p.package == "gtk" and vmatch(p, "1.5"), must_parse=True)
        run(f"{op}ab-2:a+b", lambda p, vmatch=vmatch: p.package == "ab" and vmatch(p, "2") and p.slot == "a+b", must_parse=True)
        run(f"{op}a-1.5::gentoo", lambda p, vmatch=vmatch: p.package == "a" and vmatch(p, "1.5") and p.repo.repo_id == "gentoo", must_parse=True)
        run(f"{op}a/ab-2", lambda p, vmatch=vmatch: p.category == "a" and p.package == "ab" and vmatch(p, "2"), must_parse=True)
        # ... with a slot and / or a repository on top of the operator and the glob
        run(f"{op}*/a*-1.5:ab", lambda p, vmatch=vmatch: G(p.package, "a*") and vmatch(p, "1.5") and p.slot == "ab", must_parse=True)
        run(f"{op}*/*-1::other", lambda p, vmatch=vmatch: vmatch(p, "1") and p.repo.repo_id == "other", must_parse=True)
        run(f"{op}a*/*b-2:a+b/1.5::other", lambda p, vmatch=vmatch: G(p.category, "a*") and G(p.package, "*b") and vmatch(p, "2") and p.slot == "a+b" and p.subslot == "1.5" and p.repo.repo_id == "other")
    # a glob in the slot / sub-slot position behind a plain category/package (with or without operator and repository)
    for sg in ("a*", "*b", "*", "a*b"):
        run(f"a/ab:{sg}", lambda p, sg=sg: p.category == "a" and p.package == "ab" and G(p.slot, sg), must_parse=True)
        run(f"dev-a/a:ab/{sg}", lambda p, sg=sg: p.category == "dev-a" and p.package == "a" and p.slot == "ab" and G(p.subslot, sg), must_parse=True)
        run(f">=a/ab-2:{sg}", lambda p, sg=sg: p.category == "a" and p.package == "ab" and ver_cmp(p.version, p.revision, "2", None) >= 0 and G(p.slot, sg), must_parse=True)
        run(f"a/ab:{sg}::other", lambda p, sg=sg: p.category == "a" and p.package == "ab" and G(p.slot, sg) and p.repo.repo_id == "other", must_parse=True)
    from pkgcore.ebuild.atom import atom
    for s in ("a/ab", ">=a/ab-2", "a/ab:aab", "dev-a/a:ab/a.b", "a/gtk+", "=a.b/ab-1", "a/ab::other"):
        a = atom(s)
        run(s, lambda p, a=a: a.match(p), must_parse=True)
    for s in ("gtk+", "a_b", "ab"):
        run(s, lambda p, s=s: p.package == s)
    for s in ("!a/ab", "!!a/ab", "a/*!", "!*"):
        cases += 1
        try:
            parse_match(s)
            note({"query": s}, f"parse_match({s!r}) accepted a string containing a blocker")
        except ParseError:
            pass
        except Exception as e:
            note({"query": s}, f"parse_match({s!r}) raised {type(e).__name__} instead of ParseError")
    return {"name": "C44.queries.bounded_enumeration", "bound": f"{len(globs)} globs of <= 4 symbols over {SYM} in 11 positions / combinations (incl. a glob in only one of slot / sub-slot), 54 version-operator queries (all six operators, packages with revisions), 10 plain atom / name strings, 4 blocker strings, against {len(pkgs)} packages; {stat['ok']} queries parsed and compared, {stat['rejected']} rejected by parse_match itself",
            "cases": cases, "failures": fails}


OPS = ("<", "=", ">", "~")


def t_collect_ops(ex):
    """collect_ops(text) splits the text into its longest prefix of version-operator characters and the rest -- for every text"""
    import z3
    from pyvc.api import call, Interp
    from pyvc.interp import LoopSpec
    from pyvc.sym import KStr, SBool, SInt, SStr
    P = "C44.collect_ops"
    text = KStr.fresh("text")
    ex.inputs.update({"text": text})
    is_op = lambda c: z3.Or(*[c == z3.StringVal(o) for o in OPS])

    def inv(L, k):
        i = L.i.t if isinstance(L.i, SInt) else z3.IntVal(L.i)
        j = z3.Int("j!c44")
        return SBool(z3.And(i >= 0, i <= z3.Length(text.t),
                            z3.ForAll([j], z3.Implies(z3.And(j >= 0, j < i), is_op(z3.SubString(text.t, j, 1))))))
    it = Interp(ex, label=P, loops={("collect_ops", 0): LoopSpec(inv)})
    out = call(it, it.target(PR, "collect_ops"), text)
    ex.oblige(f"{P}.raises.nothing", not out.raised, kind="exceptional-postcondition")
    if out.raised:
        return
    r = out.value
    shape = isinstance(r, tuple) and len(r) == 2 and all(isinstance(x, (str, SStr)) for x in r)
    ex.oblige(f"{P}.ensures.returns_a_pair_of_strings", shape)
    if not shape:
        return
    ex.cover("returns")
    ops, rest = [x.t if isinstance(x, SStr) else z3.StringVal(x) for x in r]
    j = z3.Int("j!c44post")
    ex.oblige(f"{P}.ensures.operators_followed_by_rest_is_the_text", SBool(z3.Concat(ops, rest) == text.t))
    # (the first part is the text's prefix of its own length -- the obligation above -- so its characters are stated as the text's)
    ex.oblige(f"{P}.ensures.the_first_part_holds_operator_characters_only",
              SBool(z3.And(z3.PrefixOf(ops, text.t), z3.ForAll([j], z3.Implies(z3.And(j >= 0, j < z3.Length(ops)), is_op(z3.SubString(text.t, j, 1)))))))
    ex.oblige(f"{P}.ensures.the_rest_does_not_start_with_an_operator_character",
              SBool(z3.Or(rest == z3.StringVal(""), z3.Not(is_op(z3.SubString(rest, 0, 1))))))


def t_convert_glob(ex):
    """convert_glob(token): which kind of value restriction a token becomes -- no restriction exactly for '' and '*', an exact string match on the
    token itself exactly when it holds no '*', a rejected token exactly when valid_globbing refuses it, otherwise an anchored (whole-string,
    match=True) regular expression built from the escaped token with every escaped star turned into '.*'.  What the regular expression then
    accepts (re's semantics) stays with the bounded stand-in."""
    import z3
    from pyvc.api import call, Interp
    from pyvc.models import Model, replace_all
    from pyvc.sym import KStr, SBool, SStr
    from pyvc import theory
    import pkgcore.util.parserestrict as M
    from pkgcore.restrictions import values
    P = "C44.convert_glob"
    token = KStr.fresh("token")
    ex.inputs.update({"token": token})
    VALID = theory.ufun("valid_globbing", z3.StringSort(), z3.BoolSort())
    ESC = theory.ufun("re_escape", z3.StringSort(), z3.StringSort())
    S_ = lambda v: v.t if isinstance(v, SStr) else z3.StringVal(v)
    made = []

    def exact(it_, s, *a, **kw):
        made.append(("exact", s, a, kw))
        return ("exact", s, a, tuple(sorted(kw.items())))

    def regex(it_, s, *a, **kw):
        return ("regex", s, a, tuple(sorted(kw.items())))
    it = Interp(ex, label=P, models={
        M.valid_globbing: Model(lambda it_, t: SBool(VALID(S_(t))), "valid_globbing", pure=True),
        M.re.escape: Model(lambda it_, t: SStr(ESC(S_(t))), "re.escape", pure=True),
        values.StrExactMatch: exact,
        values.StrRegex: regex,
    })
    out = call(it, it.target(PR, "convert_glob"), token)
    star = z3.Contains(token.t, z3.StringVal("*"))
    trivial = z3.Or(token.t == z3.StringVal("*"), token.t == z3.StringVal(""))
    if out.raised:
        ex.cover("rejects")
        ex.oblige(f"{P}.raises.ParseError_only", out.exc.cls.__name__ == "ParseError", kind="exceptional-postcondition")
        ex.oblige(f"{P}.raises.only_for_a_glob_that_valid_globbing_refuses", SBool(z3.And(z3.Not(trivial), star, z3.Not(VALID(token.t)))), kind="exceptional-postcondition")
        return
    r = out.value
    if r is None:
        ex.cover("no restriction")
        ex.oblige(f"{P}.ensures.no_restriction_only_for_the_empty_token_and_the_lone_star", SBool(trivial))
    elif isinstance(r, tuple) and r[0] == "exact":
        ex.cover("exact match")
        ex.oblige(f"{P}.ensures.exact_match_only_for_a_token_without_a_star", SBool(z3.And(z3.Not(trivial), z3.Not(star))))
        ex.oblige(f"{P}.ensures.exact_match_is_on_the_token_itself_case_sensitive_not_negated",
                  SBool(S_(r[1]) == token.t) if isinstance(r[1], (str, SStr)) else False)
        kw = dict(r[3])
        ex.oblige(f"{P}.ensures.exact_match_takes_the_default_flags", r[2] == () and not kw.get("negate", False) and kw.get("case_sensitive", True) is True and set(kw) <= {"negate", "case_sensitive"})
    elif isinstance(r, tuple) and r[0] == "regex":
        ex.cover("regular expression")
        ex.oblige(f"{P}.ensures.regular_expression_only_for_an_admissible_glob", SBool(z3.And(z3.Not(trivial), star, VALID(token.t))))
        want = z3.Concat(z3.StringVal("^"), replace_all(ESC(token.t), z3.StringVal("\\*"), z3.StringVal(".*")), z3.StringVal("$"))
        ex.oblige(f"{P}.ensures.pattern_is_the_escaped_token_with_each_escaped_star_widened_and_anchored_at_both_ends",
                  SBool(S_(r[1]) == want) if isinstance(r[1], (str, SStr)) else False)
        kw = dict(r[3])
        ex.oblige(f"{P}.ensures.the_pattern_is_applied_from_the_start_of_the_field_not_searched_not_negated",
                  r[2] == () and kw.get("match") is True and not kw.get("negate", False) and kw.get("case_sensitive", True) is True and set(kw) <= {"match", "negate", "case_sensitive"})
    else:
        ex.oblige(f"{P}.ensures.result_is_None_an_exact_match_or_a_regular_expression", False)


def tasks():
    return [Task("C44.queries", None, [(PR, "parse_match"), (PR, "convert_glob"), (PR, "parse_globbed_version")], enumerate=enum_queries),
            Task("C44.collect_ops", t_collect_ops, [(PR, "collect_ops")]),
            Task("C44.convert_glob", t_convert_glob, [(PR, "convert_glob")])]


def replay_collect_ops(model):
    """run the real collect_ops on the counter-model's text and evaluate the three postconditions natively"""
    from pkgcore.util.parserestrict import collect_ops
    text = model.get("text", "")
    try:
        r = collect_ops(text)
    except Exception as e:
        return True, f"collect_ops({text!r}) raised {type(e).__name__}: {e}"
    i = 0
    while i < len(text) and text[i] in OPS:
        i += 1
    want = (text[:i], text[i:])
    return r != want, f"collect_ops({text!r}) returns {r!r}; the longest operator prefix and the rest are {want!r}"


def replay_convert_glob(model):
    """run the real convert_glob on the counter-model's token; compare with the dispatch the contract states, read off the real objects"""
    from pkgcore.util.parserestrict import convert_glob, valid_globbing, ParseError
    from pkgcore.restrictions import values
    token = model.get("token", "")
    try:
        r = convert_glob(token)
    except ParseError:
        bad = token in ("*", "") or "*" not in token or bool(valid_globbing(token))
        return bad, f"convert_glob({token!r}) raised ParseError; valid_globbing says {bool(valid_globbing(token))}"
    except Exception as e:
        return True, f"convert_glob({token!r}) raised {type(e).__name__}: {e}"
    if token in ("*", ""):
        return r is not None, f"convert_glob({token!r}) returns {r!r}, no restriction is expected"
    if "*" not in token:
        ok = isinstance(r, values.StrExactMatch) and r.exact == token and not r.negate and r.case_sensitive
        return not ok, f"convert_glob({token!r}) returns {r!r}, an exact, case-sensitive, non-negated match on the token is expected"
    if not valid_globbing(token):
        return True, f"convert_glob({token!r}) returns {r!r} for a glob that valid_globbing refuses"
    want = "^" + re.escape(token).replace("\\*", ".*") + "$"
    pat = getattr(r, "regex", None)
    ok = isinstance(r, values.StrRegex) and pat == want and r.ismatch is True and not r.negate and r.flags == 0
    return not ok, f"convert_glob({token!r}) returns {r!r} (pattern {pat!r}); expected the anchored pattern {want!r} applied with match=True"


REPLAY = {"C44.collect_ops.": replay_collect_ops, "C44.convert_glob.": replay_convert_glob}
