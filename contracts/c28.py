"""C28 -- Manifest generation is deterministic, idempotent, parseable and atomic (DESIGN.md section 4, C28)."""
import itertools
import os
import random
import types
import z3
from pyvc.api import Task, call, Interp
from pyvc.ghost import awf_contract, Effect
from pyvc.interp import PyRaise
from pyvc.models import Model, ModelHost
from pyvc.sym import KInt, KStr, SBool, SInt, SStr, SObj, And, OutOfSubset

PROPERTY = "C28"
DG = "src/pkgcore/ebuild/digest.py"

MANIFEST = {
    "text": "Proof that _manifest_line renders 'TYPE name size' followed by the remaining checksum types in alphabetical order, for "
            "arbitrary sizes and checksum values, whatever order the checksum mapping was filled in.  Effect-trace contract on "
            "Manifest.update over a ghost file system, for thick and thin mode, with the directory listing and the fetchables handed over "
            "in different orders and with every failure outcome of the write: the text is the same for every order; an up-to-date "
            "Manifest makes update return False without a single write effect; otherwise the only effect on the Manifest path is one "
            "AtomicWriteFile open / write of the full text / close (the file changes in close, by a rename), a failing write or close "
            "discards the temporary file and re-raises, and every prefix of the trace leaves the old file complete.  A native "
            "enumeration generates Manifests for random package directories and checksum sets, re-parses them, shuffles inputs, "
            "regenerates, and interrupts the write.",
    "note": "Trusted: snakeoil AtomicWriteFile (data goes to a sibling temporary file, close() renames it over the target, discard() "
            "removes it), chksum handlers' long2str / int(.,16) as inverse, iter_scan's file objects; pyvc encoder.",
}
ASSUMPTIONS = ["AtomicWriteFile.close() replaces the target atomically; until then the target is untouched"]


def t_line(ex):
    import pkgcore.ebuild.digest as D
    P = "C28._manifest_line"
    it = Interp(ex, label=P)
    order = ex.choose(3)
    size, b2, sha = KInt.fresh("size"), KInt.fresh("blake2b"), KInt.fresh("sha512")
    for v in (size, b2, sha):
        ex.assume(v >= 0)
    items = [("size", size), ("blake2b", b2), ("sha512", sha)]
    items = [items, items[::-1], [items[1], items[0], items[2]]][order]
    HEX = {}

    def handler(it_, chf):
        def long2str(it__, v):
            HEX.setdefault((chf, id(v)), KStr.fresh(f"hex_{chf}"))
            return HEX[(chf, id(v))]
        return types.SimpleNamespace(long2str=Model(long2str, f"{chf}.long2str"))
    it.models[D.get_handler] = handler
    out = call(it, it.target(DG, "_manifest_line"), "dist", "pkg-1.tar.gz", dict(items))
    ex.oblige(f"{P}.raises.nothing", not out.raised, kind="exceptional-postcondition")
    if out.raised:
        return
    want = z3.Concat(z3.StringVal("DIST pkg-1.tar.gz "), z3.IntToStr(size.t), z3.StringVal(" BLAKE2B "), HEX[("blake2b", id(b2))].t, z3.StringVal(" SHA512 "), HEX[("sha512", id(sha))].t, z3.StringVal("\n"))
    r = out.value
    ex.oblige(f"{P}.ensures.type_name_size_then_checksums_in_alphabetical_order[filled in order {[k for k, _ in items]}]", SBool((r.t if isinstance(r, SStr) else z3.StringVal(r)) == want))


def _conc(v):
    from pyvc.sym import concrete_of
    return v if isinstance(v, str) else concrete_of(v)


class GhostFS:
    def __init__(self, manifest_text):
        self.text = manifest_text   # None: no Manifest yet


def t_update(ex):
    import pkgcore.ebuild.digest as D
    import builtins
    thin = bool(ex.choose(2))
    listing = ex.choose(2)
    current = ("absent", "up_to_date", "stale")[ex.choose(3)]
    P = f"C28.Manifest.update[{'thin' if thin else 'thick'}, listing order {listing}, Manifest {current}]"
    it = Interp(ex, label=P)
    it.trace = []
    path = "/repo/cat/pkg/Manifest"

    def fobj(loc, sums):
        return types.SimpleNamespace(is_reg=True, location=loc, dirname=os.path.dirname(loc) or "/", chksums=sums)
    objs = [fobj("/pkg-1.ebuild", {"size": 10, "blake2b": 1}), fobj("/pkg-2.ebuild", {"size": 11, "blake2b": 2}), fobj("/metadata.xml", {"size": 5, "blake2b": 3}),
            fobj("/files/fix.patch", {"size": 7, "blake2b": 4}), fobj("/files/a/b.patch", {"size": 8, "blake2b": 5}), fobj("/files/a/files/c.conf", {"size": 9, "blake2b": 10}), fobj("/files/files", {"size": 3, "blake2b": 11}), types.SimpleNamespace(is_reg=False, location="/files", dirname="/", chksums={}),
            fobj("/Manifest", {"size": 1, "blake2b": 9})]
    fetch = [types.SimpleNamespace(filename="pkg-2.tar.gz", chksums={"size": 100, "sha512": 7, "blake2b": 6}), types.SimpleNamespace(filename="pkg-1.tar.gz", chksums={"blake2b": 8, "size": 99, "sha512": 9})]
    if listing:
        objs, fetch = objs[::-1], fetch[::-1]
    it.models[D.iter_scan] = lambda it_, *a, **k: list(objs)
    L = lambda t, n, sums: D._manifest_line(t, n, sums)
    lines = {"AUX": [L("AUX", "a/b.patch", {"size": 8, "blake2b": 5}), L("AUX", "a/files/c.conf", {"size": 9, "blake2b": 10}), L("AUX", "files", {"size": 3, "blake2b": 11}), L("AUX", "fix.patch", {"size": 7, "blake2b": 4})],
             "DIST": [L("DIST", "pkg-1.tar.gz", {"size": 99, "blake2b": 8, "sha512": 9}), L("DIST", "pkg-2.tar.gz", {"size": 100, "blake2b": 6, "sha512": 7})],
             "EBUILD": [L("EBUILD", "pkg-1.ebuild", {"size": 10, "blake2b": 1}), L("EBUILD", "pkg-2.ebuild", {"size": 11, "blake2b": 2})], "MISC": [L("MISC", "metadata.xml", {"size": 5, "blake2b": 3})]}
    want = "".join(lines["DIST"]) if thin else "".join(lines["AUX"] + lines["DIST"] + lines["EBUILD"] + lines["MISC"])
    old = {"absent": None, "up_to_date": want, "stale": "DIST old-0.tar.gz 1 BLAKE2B 00000000\n"}[current]
    reads = []

    class RHandle(ModelHost):
        def enter(self, it_):
            return self

        def exit(self, it_, *a):
            return False

        def getattr(self, it_, name):
            if name == "read":
                return Model(lambda it__: old, "file.read")
            raise OutOfSubset(name)

    def m_open(it_, p, mode="r", *a):
        if "w" in mode or "a" in mode:
            it.trace.append(Effect("open_for_writing_in_place", path=p))
            raise PyRaise(OSError(28, "ghost: disk full while writing in place"))
        reads.append(p)
        if old is None:
            raise PyRaise(FileNotFoundError(2, "no Manifest"))
        return RHandle()
    it.models[builtins.open] = m_open
    if hasattr(D, "AtomicWriteFile"):
        it.models[D.AtomicWriteFile] = awf_contract(faults=True, ctor_faults=True)
    me = SObj(D.Manifest, {"path": path, "thin": thin, "allow_missing": False, "_gpg": False, "_sourced": True})
    out = call(it, it.target(DG, "Manifest.update"), me, fetch)
    tr = it.trace
    kinds = [e.kind for e in tr]
    ex.oblige(f"{P}.invariant.the_manifest_is_never_opened_for_writing_in_place", "open_for_writing_in_place" not in kinds, kind="invariant")
    touching = [e for e in tr if getattr(e, "path", path) != path]
    ex.oblige(f"{P}.frame.only_the_manifest_path", not touching)
    faulted = "fault" in kinds
    if current == "up_to_date":
        ex.oblige(f"{P}.ensures.an_up_to_date_manifest_returns_false_and_writes_nothing", not out.raised and out.value is False and tr == [])
        return
    if faulted:
        ex.oblige(f"{P}.raises.a_failed_write_propagates", out.raised_cls(OSError), kind="exceptional-postcondition")
        ex.oblige(f"{P}.invariant.a_failed_write_never_commits_and_discards_the_temporary_file", "awf_close" not in kinds and (kinds[-1] == "awf_discard" or "awf_open" not in kinds), kind="invariant")
        return
    ex.oblige(f"{P}.raises.nothing", not out.raised, kind="exceptional-postcondition")
    if out.raised:
        return
    ex.oblige(f"{P}.ensures.returns_true_after_one_atomic_replace", out.value is True and kinds == ["awf_open", "awf_write", "awf_close"])
    w = [e for e in tr if e.kind == "awf_write"]
    ex.oblige(f"{P}.ensures.text_is_sorted_by_type_and_name_whatever_the_input_order", len(w) == 1 and _conc(w[0].data) == want, note=f"written {_conc(w[0].data) if w else None!r}")
    ex.oblige(f"{P}.ensures.cached_parse_is_invalidated", me.fields["_sourced"] is False)


# ------------------------------------------------------------------ bounded stand-in ----
class _Stop(BaseException):
    pass


def enum_manifests(seed):
    import shutil
    import tempfile
    from pkgcore.ebuild import digest
    from snakeoil import fileutils
    scratch = tempfile.mkdtemp(prefix="c28.", dir=os.environ.get("PYVC_SCRATCH", "/var/tmp"))
    fails, cases = [], 0

    def note(model, detail):
        if len(fails) < 5:
            fails.append({"model": model, "detail": detail})
    try:
        for s in range(40):
            rnd = random.Random(seed * 1000 + s)
            d = os.path.join(scratch, f"cat{s}", "pkg")
            os.makedirs(os.path.join(d, "files", "sub"))
            names = {"pkg-1.ebuild": "e1", "metadata.xml": "<x/>"}
            if rnd.random() < .7:
                names["pkg-2.ebuild"] = "e2" * rnd.randrange(1, 9)
            if rnd.random() < .6:
                names["files/fix.patch"] = "p" * rnd.randrange(1, 50)
            if rnd.random() < .4:
                names["files/sub/deep.patch"] = "q"
            if rnd.random() < .3:
                names["ChangeLog"] = "c"
            if rnd.random() < .4:   # a directory called files below files/, and a file called files
                os.makedirs(os.path.join(d, "files", "sub", "files"))
                names["files/sub/files/nested.conf"] = "n" * rnd.randrange(1, 20)
                if rnd.random() < .5:
                    names["files/files.conf"] = "ff"
            if s % 4 == 1:   # one name under two entry types: files/metadata.xml beside metadata.xml, a distfile called like a patch
                names["files/metadata.xml"] = "aux copy"
                names["files/fix.patch"] = "p" * 7
            if s % 4 == 2:   # names that merely contain the words the scan leaves out as whole path components (dev-perl/Test-Manifest is a real package)
                names["Test-Manifest-2.23.ebuild"] = "tm"
                names["files/fix-Manifest.in.patch"] = "fm"
                names["files/foo-CVS-keywords.patch"] = "cvs"
                names["notes.svn.txt"] = "svn"
            blank = s % 5 == 4   # a name the whitespace separated format cannot carry: generation must refuse it, not write a broken file
            if blank:
                names[rnd.choice(("files/a b.patch", "files/tab\there", "read me.txt"))] = "w"
            for n, data in names.items():
                open(os.path.join(d, n), "w").write(data)
            chf_orders = [("size", "blake2b", "sha512"), ("size", "sha512", "blake2b"), ("sha512", "size", "blake2b")]
            dist = {f"pkg-{i}.tar.gz": {"size": rnd.randrange(1, 10**6), "blake2b": rnd.getrandbits(512), "sha512": rnd.getrandbits(512)} for i in range(rnd.choice((0, 1, 3)))}
            if s % 4 == 1:
                dist["fix.patch"] = {"size": 12345, "blake2b": rnd.getrandbits(512), "sha512": rnd.getrandbits(512)}
            for thin in (False, True):
                texts = set()
                for order in chf_orders:
                    mpath = os.path.join(d, "Manifest")
                    if os.path.exists(mpath):
                        os.unlink(mpath)
                    fetch = [types.SimpleNamespace(filename=n, chksums={k: v[k] for k in order}) for n, v in dist.items()]
                    rnd.shuffle(fetch)
                    m = digest.Manifest(mpath, thin=thin)
                    cases += 1
                    model = {"seed": s, "thin": thin, "files": sorted(names), "distfiles": sorted(dist), "checksum_order": list(order)}
                    try:
                        wrote = m.update(fetch, chfs=order)
                    except ValueError as e:
                        if blank and not thin:
                            if os.path.exists(mpath):
                                note(model, f"generation refused a name with whitespace ({e}) but left a Manifest behind")
                            continue
                        note(model, f"Manifest generation raised {type(e).__name__}: {e}")
                        continue
                    if thin and not dist:
                        if wrote or os.path.exists(mpath):
                            note(model, "a thin Manifest without distfiles was written")
                        continue
                    text = open(mpath).read()
                    texts.add(text)
                    try:
                        got = digest.parse_manifest(mpath)
                    except Exception as e:
                        note(model, f"the generated Manifest does not parse: {type(e).__name__}: {e}")
                        continue
                    gd = {k: dict(v) for k, v in got[0].items()}
                    if gd != {k: dict(v) for k, v in dist.items()}:
                        note(model, f"DIST entries parse back as {gd}, generated from {dist}")
                    if not thin:
                        on_disk = {n: os.path.getsize(os.path.join(d, n)) for n in names}
                        parsed = {**{("files/" + k): v["size"] for k, v in got[1].items()}, **{k: v["size"] for k, v in got[2].items()}, **{k: v["size"] for k, v in got[3].items()}}
                        if parsed != on_disk:
                            note(model, f"file sizes parse back as {parsed}, on disk {on_disk}")
                    ino = os.stat(mpath).st_ino
                    if digest.Manifest(mpath, thin=thin).update(list(reversed(fetch)), chfs=order) or os.stat(mpath).st_ino != ino or open(mpath).read() != text:
                        note(model, "regenerating an up-to-date Manifest wrote the file again")
                if len(texts) > 1:
                    note({"seed": s, "thin": thin, "distfiles": sorted(dist)}, f"Manifest text depends on input order: {len(texts)} different texts for the same package (checksum type / fetchable order varied); e.g. {sorted(texts)[0][:120]!r} vs {sorted(texts)[1][:120]!r}")
                # interruption during the write
                mpath = os.path.join(d, "Manifest")
                if os.path.exists(mpath) and dist:
                    before = open(mpath).read()
                    open(os.path.join(d, "pkg-1.ebuild"), "a").write("changed")
                    cases += 1
                    real_open, real_awf = open, getattr(digest, "AtomicWriteFile", None)
                    if real_awf is not None:
                        class Boom(real_awf):
                            def close(self):   # the process dies after writing, before the file is committed
                                self.flush()
                                raise _Stop()

                            def discard(self):  # ... and a dead process cleans nothing up: its temporary file stays
                                pass
                        digest.AtomicWriteFile = Boom
                    import builtins
                    def guarded_open(p, mode="r", *a, **k):
                        if os.path.abspath(p) == mpath and ("w" in mode or "a" in mode):
                            fh = real_open(p, mode, *a, **k)
                            fh.write("HALF")
                            fh.close()
                            raise _Stop()
                        return real_open(p, mode, *a, **k)
                    digest.open = guarded_open
                    try:
                        digest.Manifest(mpath, thin=thin).update([types.SimpleNamespace(filename=n, chksums=v) for n, v in dist.items()])
                    except _Stop:
                        pass
                    finally:
                        if real_awf is not None:
                            digest.AtomicWriteFile = real_awf
                        del digest.open
                    after = open(mpath).read()
                    if after != before and not thin:
                        note({"seed": s, "thin": thin}, f"regeneration interrupted in the middle of the write left a Manifest that is neither the old nor the new text: {after[:80]!r}")
                    # the regeneration after the interrupted one: covers exactly the package's files (whatever the dead run left lying around), and is then up to date
                    if not thin and not blank:
                        left = sorted(n for n in os.listdir(d) if n not in names and n not in ("files", "Manifest"))
                        model = {"seed": s, "thin": thin, "files": sorted(names), "left_by_the_interrupted_run": left}
                        try:
                            fetch = [types.SimpleNamespace(filename=n, chksums=v) for n, v in dist.items()]
                            digest.Manifest(mpath, thin=thin).update(fetch)
                            got = digest.parse_manifest(mpath)
                            covered = sorted([("files/" + k) for k in got[1]] + list(got[2]) + list(got[3]))
                            if covered != sorted(names):
                                note(model, f"the regeneration after an interrupted one (which left {left}) covers {covered}; the package's files are {sorted(names)}")
                            elif digest.Manifest(mpath, thin=thin).update(fetch):
                                note(model, f"the regeneration after an interrupted one (which left {left}) is not up to date: the next one wrote the file again")
                        except Exception as e:
                            note(model, f"the regeneration after an interrupted one (which left {left}) raised {type(e).__name__}: {e}")
    finally:
        shutil.rmtree(scratch, ignore_errors=True)
    return {"name": "C28.manifests.bounded_enumeration", "bound": "40 seeded package directories (2..8 files incl. files/ subtrees and a nested directory itself called files, 0..3 distfiles with random sizes and 512-bit checksums) x thick / thin x 3 checksum-type orders with shuffled fetchables: "
            "parse back, text equality across orders, regeneration writes nothing, write interrupted half way (the process dies: nothing is cleaned up) and regenerated afterwards", "cases": cases, "failures": fails}


def tasks():
    return [
        Task("C28._manifest_line", t_line, [(DG, "_manifest_line")]),
        Task("C28.Manifest.update", t_update, [(DG, "Manifest.update"), (DG, "_manifest_line")], enumerate=enum_manifests),
    ]


REPLAY = {}
