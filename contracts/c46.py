"""C46 -- distfile cleaning never deletes a distfile that must be kept (DESIGN.md section 4, C46)."""
import itertools
import io
import os
import random
import types
from pyvc.api import Task

PROPERTY = "C46"
PC = "src/pkgcore/scripts/pclean.py"
LEVEL = "other"
EXPLANATION = ("the selection is a bounded stand-in (the removal runner and the file filters are proved): _dist_validate_args is an argparse completion hook of ~110 lines that mixes repository iteration with name-based regular "
               "expressions built at run time (re.split / re.compile on package names) and lazily evaluated generators; the meaning of the target selection is a "
               "statement about those regular expressions, which the self-built generator cannot encode.  The real hook is run on seeded repositories, installed "
               "sets and distdirs under every option combination and its removal list is compared with the keep-rules of the statement.")

MANIFEST = {
    "text": "Bounded stand-in: seeded universes (4..6 packages with 1..2 versions, distfile names derived from and colliding across package "
            "names such as foo / foo-bin, fetch-restricted packages, an installed set whose distfiles partly left the tree, stray files "
            "in the distdir) under every combination of targets (none, a package, a glob), --installed, --exists, --fetch-restricted, an "
            "exclusion pattern and a size filter: the real _dist_validate_args computes the removal list in a scratch distdir; it must "
            "contain only files of the distdir that pass the file filters and, with targets, that carry a target package's name, and no "
            "file used by an installed package (-I), by any package in the tree (-E), by a fetch-restricted package (-f) or by a package "
            "matching the exclusion pattern.  Under contract and proved for all inputs: the removal runner _remove (any number of selected "
            "(function, target) pairs: each function applied to its own target exactly once and in order, nothing applied under --pretend or when "
            "stdout is not a terminal, status 1 exactly when a removal failed) and the --modified / --size filters (a file passes exactly when it is "
            "older resp. smaller than the given bound).  The selection itself stays bounded, hence level 'other'.",
    "note": "Trusted: the reference reading of 'selected by the cleaning targets' (the file is a distfile of a matched package or its name "
            "starts with a matched package's name); repository iteration (C08); package metadata.",
}
ASSUMPTIONS = ["re.match is modelled for the pattern shape ^(\\d+)(unit|...)$ / ^(\\d+)([UNITS])$ only (parse_time / parse_size); int() of a digit string is z3 str.to_int", "with targets, a file is selectable only if it belongs to a matched package, its name starts with the name of a matched package, or it shares the name stem (up to the version) of one of a matched package's distfiles: pclean's way of finding files of versions that left the tree"]


def mk_universe(rnd):
    from pkgcore.ebuild.cpv import VersionedCPV
    names = rnd.sample(["foo", "foo-bin", "bar", "libfoo", "bar-utils", "baz"], rnd.choice((4, 5, 6)))
    tree = {}
    for n in names:
        for v in rnd.sample(["1.0", "2.0"], rnd.choice((1, 2))):
            files = [f"{n}-{v}.tar.gz"]
            if rnd.random() < .3:
                files.append(f"{n}-{v}-patches.tar.xz")
            if rnd.random() < .2:
                files.append(f"shared-data-{v}.zip")
            tree[f"app-misc/{n}-{v}"] = (tuple(files), ("fetch",) if rnd.random() < .25 else ())
    installed = {}
    for cpv, (files, restr) in tree.items():
        if rnd.random() < .3:
            installed[cpv] = files
    if rnd.random() < .5:
        installed["app-misc/old-0.5"] = ("old-0.5.tar.gz",)
    return tree, installed


class _Pkg:
    def __init__(self, cpvstr, distfiles, restrict):
        from pkgcore.ebuild.cpv import VersionedCPV
        from pkgcore.ebuild.atom import atom
        c = VersionedCPV(cpvstr)
        self.cpvstr, self.category, self.package, self.fullver, self.version, self.revision, self.key = c.cpvstr, c.category, c.package, c.fullver, c.version, c.revision, c.key
        self.distfiles, self.restrict = tuple(distfiles), tuple(restrict)
        self.unversioned_atom = atom(c.key)
        self.versioned_atom = atom("=" + c.cpvstr)

    def __lt__(self, o):
        return self.cpvstr < o.cpvstr

    def __hash__(self):
        return hash(self.cpvstr)

    def __eq__(self, o):
        return isinstance(o, _Pkg) and o.cpvstr == self.cpvstr


class _Repo:
    def __init__(self, pkgs):
        self.pkgs = list(pkgs)

    def __iter__(self):
        return iter(self.pkgs)

    def itermatch(self, restrict, sorter=iter, **kw):
        return sorter(p for p in self.pkgs if restrict.match(p))


def _stem(f):
    """leading name of a distfile, up to the first '-<digit>'"""
    import re
    return re.split(r"-(?=\d)", f, maxsplit=1)[0].lower()


def enum_cleaning(seed):
    import shutil
    import tempfile
    from pkgcore.scripts import pclean
    from pkgcore.util.parserestrict import parse_match
    thorough = os.environ.get("VERIF_TIER") == "thorough"
    scratch = tempfile.mkdtemp(prefix="c46.", dir=os.environ.get("PYVC_SCRATCH", "/var/tmp"))
    fails, cases = [], 0
    try:
        for s in range(60 if thorough else 20):
            rnd = random.Random(seed * 1000 + s)
            tree, installed = mk_universe(rnd)
            distdir = os.path.join(scratch, f"d{s}")
            os.makedirs(distdir)
            present = set()
            for files, _ in tree.values():
                present.update(f for f in files if rnd.random() < .8)
            for files in installed.values():
                present.update(files)
            names = sorted({c.split("/")[1].rsplit("-", 1)[0] for c in tree})
            present.update(f"{rnd.choice(names)}-0.{i}.tar.gz" for i in range(2))     # older versions no longer in the tree
            present.update(["unrelated.bin", "README"])
            for f in present:
                with open(os.path.join(distdir, f), "w") as fh:
                    fh.write("x" * (10 if hash(f) % 2 else 2000))
            pkgs = [_Pkg(c, f, r) for c, (f, r) in sorted(tree.items())]
            inst = [_Pkg(c, f, ()) for c, f in sorted(installed.items())]
            repo = _Repo(pkgs)
            # every third universe: no -r repository; the domain's source repositories are what a domain has -- the tree behind the
            # visibility filter (package.mask, keywords), here hiding one or two of the packages.  They are still packages in the repositories.
            masked, source_repos = [], []
            if s % 3 == 0:
                from pkgcore.repository import filtered
                from pkgcore.repository.util import SimpleTree
                from pkgcore.restrictions import packages as _packages
                masked = sorted(rnd.sample(sorted(tree), rnd.choice((1, 2))))
                by_cpv = {p.cpvstr: p for p in pkgs}
                shape = {}
                for p in pkgs:
                    shape.setdefault(p.category, {}).setdefault(p.package, []).append(p.fullver)
                base = SimpleTree(shape, pkg_klass=lambda cat, pn, ver: by_cpv[f"{cat}/{pn}-{ver}"])
                source_repos = [filtered.tree(base, _packages.OrRestriction(*[by_cpv[c].versioned_atom for c in masked], negate=True), True)]
                # ... reached either as the domain's repositories (no -r) or as the repository -r names, which is the filtered one as well
                repo = None if s % 2 == 0 else source_repos[0]
            # exclusions as the command line gives them: -x patterns, an -X file (last line with or without a line end is the user's business:
            # here without, so that no empty pattern arises), or both; the namespace is built by pclean's own parse hooks
            excl_forms = (None, ([names[1]], None), (None, names[1]), (None, names[2] + "\n" + names[1]), ([names[2]], names[1]))
            # package sets as -S gives them: (disabled, enabled) names looked up in the configuration; an enabled set selects, a disabled one excludes
            from pkgcore.ebuild.atom import atom as _atom
            cats = {c.split("/")[1].rsplit("-", 1)[0]: c.split("/")[0] for c in tree}
            set_atoms = {"empty": [], "first": [_atom(f"{cats[names[0]]}/{names[0]}")], "second": [_atom(f"{cats[names[1]]}/{names[1]}")]}
            set_forms = (([], ["empty"]), ([], ["first"]), (["second"], []), (["second"], ["first", "empty"]))
            forms = [(e_, None) for e_ in excl_forms] + [(e_, p_) for e_ in excl_forms[:2] for p_ in set_forms]
            for target, (excl_form, set_form), (opt_i, opt_e, opt_f), size in itertools.product((None, names[0], names[-1], "foo*"), forms, itertools.product((False, True), repeat=3), (None, 1000)):
                cases += 1
                filters = pclean.Filters()
                if size is not None:
                    filters.append(lambda x, size=size: os.stat(x).st_size < size)
                excl_patterns = [] if excl_form is None else list(excl_form[0] or []) + (excl_form[1].split("\n") if excl_form[1] is not None else [])
                excl = ", ".join(excl_patterns) or None
                ns = types.SimpleNamespace(domain=types.SimpleNamespace(distdir=distdir, all_installed_repos=inst, source_repos=source_repos, all_source_repos_raw=()), repo=repo,
                                           restrict=[], targets=[target] if target else [], pkgsets=([list(x) for x in set_form] if set_form else None),
                                           config=types.SimpleNamespace(pkgset=set_atoms), excludes=list(excl_form[0]) if excl_form and excl_form[0] else None,
                                           exclude_file=io.StringIO(excl_form[1]) if excl_form and excl_form[1] is not None else None,
                                           exclude_installed=opt_i, exclude_exists=opt_e, exclude_fetch_restricted=opt_f, file_filters=filters)
                model = {"seed": s, "hidden_by_the_visibility_filter": masked, "tree": {k: [list(v[0]), list(v[1])] for k, v in tree.items()}, "installed": {k: list(v) for k, v in installed.items()}, "distdir": sorted(present),
                         "target": target, "exclude": excl, "exclude_on_command_line": excl_form[0] if excl_form else None, "exclude_file_text": excl_form[1] if excl_form else None,
                         "package_sets": {"disabled": set_form[0], "enabled": set_form[1], "content": {k: [str(a) for a in v] for k, v in set_atoms.items()}} if set_form else None,
                         "installed_opt": opt_i, "exists_opt": opt_e, "fetch_restricted_opt": opt_f, "size_below": size}
                try:
                    pclean._setup_shared_opts(ns)
                    pclean._setup_restrictions(ns)
                    pclean._dist_validate_args(None, ns)
                    doomed = sorted(os.path.basename(f) for _fn, f in ns.remove)
                except (Exception, SystemExit) as e:
                    if len(fails) < 5:
                        fails.append({"model": model, "detail": f"pclean dist hook raised {type(e).__name__}: {e} (target={target}, -I={opt_i} -E={opt_e} -f={opt_f}, exclude={excl})"})
                    continue
                t_restrict = parse_match(target) if target else None
                x_restricts = [parse_match(x) for x in excl_patterns]
                matched = [p for p in pkgs if t_restrict.match(p)] if target else pkgs
                if set_form:
                    for name_ in set_form[1]:       # every enabled set narrows the selection to its members
                        matched = [p for p in matched if any(a.match(p) for a in set_atoms[name_])]
                    x_restricts = x_restricts + [a for name_ in set_form[0] for a in set_atoms[name_]]
                selecting = bool(target) or bool(set_form and set_form[1])
                keep_reason = {}
                if opt_i:
                    for p in inst:
                        for f in p.distfiles:
                            keep_reason.setdefault(f, f"used by installed {p.cpvstr} (-I)")
                if opt_e:
                    for p in pkgs:
                        for f in p.distfiles:
                            keep_reason.setdefault(f, f"used by {p.cpvstr} in the tree (-E)")
                if opt_f:
                    for p in pkgs:
                        if "fetch" in p.restrict:
                            for f in p.distfiles:
                                keep_reason.setdefault(f, f"used by fetch-restricted {p.cpvstr} (-f)")
                if x_restricts:
                    for p in pkgs:
                        if any(x.match(p) for x in x_restricts):
                            for f in p.distfiles:
                                keep_reason.setdefault(f, f"used by {p.cpvstr}, matched by the exclusion pattern")
                probs = []
                for f in doomed:
                    if f not in present:
                        probs.append(f"{f} is not in the distdir")
                    elif f in keep_reason:
                        probs.append(f"{f} would be removed although it is {keep_reason[f]}")
                    elif size is not None and os.stat(os.path.join(distdir, f)).st_size >= size:
                        probs.append(f"{f} would be removed although it does not pass the size filter")
                    elif selecting and not (any(f in p.distfiles for p in matched) or any(f.lower().startswith(p.package.lower()) for p in matched)
                                         or any(_stem(f) == _stem(g) for p in matched for g in p.distfiles)):
                        probs.append(f"{f} would be removed although it has nothing to do with what the targets select (target {target!r}, package sets {set_form})")
                if probs and len(fails) < 5:
                    fails.append({"model": model, "detail": f"pclean dist target={target} -I={opt_i} -E={opt_e} -f={opt_f} exclude={excl} sets={set_form} size<{size}" + (f" (the domain hides {masked})" if masked else "") + ": " + "; ".join(probs[:3]) + f"; tree {model['tree']}"})
            shutil.rmtree(distdir, ignore_errors=True)
    finally:
        shutil.rmtree(scratch, ignore_errors=True)
    return {"name": "C46.dist_cleaning.bounded_enumeration", "bound": f"{60 if thorough else 20} seeded universes (4..6 packages incl. name-colliding foo / foo-bin / libfoo, fetch-restricted packages, installed sets, stray and outdated files; every third one read through a domain whose visibility filter hides 1..2 packages) x "
            "4 targets x 13 exclusion / package-set forms (no exclusion, -x, an -X file of one or two lines, both; -S with an empty, a one-member, a disabled set and a mix; through pclean's own parse hooks) x 8 combinations of -I -E -f x 2 size filters; removal list compared with the keep rules", "cases": cases, "failures": fails}


# ---------------------------------------------------------------- the removal runner under contract ----
def t_remove(ex):
    """_remove: for any number of selected (function, target) pairs, each function is applied to its own target exactly once, in order,
    unless --pretend (then none is); nothing else is touched; the exit status is 1 exactly when some removal failed"""
    import sys
    import z3
    from pyvc.api import call, Interp
    from pyvc.interp import LoopSpec, PyRaise
    from pyvc.loops import IterView
    from pyvc.models import Model, ModelHost
    from pyvc.sym import KInt, KBool, KStr, KSeq, SBool, SInt, SObj, And, Or, Not, Implies, OutOfSubset
    tty = bool(ex.choose(2))
    pretend = bool(ex.choose(2))
    P = f"C46._remove[{'tty' if tty else 'not a tty'}, {'pretend' if pretend else 'real'}]"
    targets = KSeq(KStr, "list").fresh("targets")
    verbosity = KInt.fresh("verbosity")
    g = types.SimpleNamespace(attempts=SInt(z3.IntVal(0)), failed=SBool(z3.BoolVal(False)))

    def rm(it_, target):
        ex.oblige(f"{P}.effect.function_applied_to_its_own_target_in_order", SBool(target.t == targets.at(g.attempts).t), kind="effect-invariant")
        ex.oblige(f"{P}.effect.nothing_removed_when_pretending_or_listing", tty and not pretend, kind="effect-invariant")
        g.attempts = g.attempts + 1
        if ex.choose(2) == 1:
            g.failed = SBool(z3.BoolVal(True))
            raise PyRaise(OSError(13, "Permission denied"))
    rmfunc = Model(rm, "removal function")

    class Out(ModelHost):
        def getattr(self, it_, name):
            if name == "write":
                return Model(lambda it__, *a, **k: None, "formatter.write")
            raise OutOfSubset(name)
    if tty:
        view = IterView(targets.length(), lambda k: (rmfunc, targets.at(k)), "options.remove")
    else:
        view = [(rmfunc, "/d/a"), (rmfunc, "/d/b")]
    options = SObj(types.SimpleNamespace, {"remove": view, "pretend": pretend, "verbosity": verbosity, "prog": "pclean"})

    def inv(L, k):
        return And(g.attempts == (0 if pretend else k), Or(L.ret == 0, L.ret == 1), Implies(g.attempts == 0, Not(g.failed)), SBool((L.ret.t == 1) == g.failed.t) if hasattr(L.ret, "t") else (L.ret == 1) == g.failed)

    def on_havoc(it_):
        g.attempts = KInt.fresh("attempts")
        g.failed = KBool.fresh("failed")
    it = Interp(ex, label=P, models={sys.stdout.isatty: lambda it_: tty}, loops={("_remove", 0): LoopSpec(inv, on_havoc=on_havoc)})
    ex.inputs.update({"n_targets": targets.length(), "verbosity": verbosity})
    out = call(it, it.target(PC, "_remove"), options, Out(), Out())
    ex.oblige(f"{P}.raises.nothing", not out.raised, kind="exceptional-postcondition")
    if out.raised:
        return
    if tty and not pretend:
        ex.oblige(f"{P}.ensures.every_selected_target_attempted_exactly_once", g.attempts == targets.length())
        ex.oblige(f"{P}.ensures.status_1_exactly_when_a_removal_failed", SBool((out.value.t == 1) == g.failed.t) if hasattr(out.value, "t") else (out.value == 1) == g.failed)
    else:
        ex.oblige(f"{P}.ensures.nothing_removed", g.attempts == 0)
        ex.oblige(f"{P}.ensures.status_0", out.value == 0)


def t_file_filters(ex):
    """--modified / --size: a file passes the registered filters exactly when it is older than the bound and smaller than the bound (each only if given)"""
    import z3
    from pyvc.api import call, Interp
    from pyvc.sym import KInt, SBool, SObj, And
    import pkgcore.scripts.pclean as M
    has_m, has_s = bool(ex.choose(2)), bool(ex.choose(2))
    P = f"C46.file_filters[modified={'set' if has_m else 'None'}, size={'set' if has_s else 'None'}]"
    modified, size, mtime, fsize = KInt.fresh("modified"), KInt.fresh("size"), KInt.fresh("st_mtime"), KInt.fresh("st_size")
    it = Interp(ex, label=P, models={os.stat: lambda it_, p, **k: SObj(os.stat_result, {"st_mtime": mtime, "st_size": fsize})})
    filters = SObj(M.Filters, {"_filters": []})
    ns = SObj(types.SimpleNamespace, {"modified": modified if has_m else None, "size": size if has_s else None, "file_filters": filters})
    out = call(it, it.target(PC, "_setup_file_opts"), ns)
    ex.oblige(f"{P}.raises.nothing", not out.raised, kind="exceptional-postcondition")
    if out.raised:
        return
    from pyvc import models as MM
    run = MM.getattr_(it, filters, "run")
    res = call(it, run, "/distdir/file")
    ex.oblige(f"{P}.run.raises.nothing", not res.raised, kind="exceptional-postcondition")
    if res.raised:
        return
    want = And(mtime < modified if has_m else True, fsize < size if has_s else True)
    got = res.value if isinstance(res.value, SBool) else SBool(z3.BoolVal(bool(res.value)))
    ex.oblige(f"{P}.ensures.passes_exactly_when_older_and_smaller_than_the_given_bounds", got == want)


def enum_distfile_names(seed):
    """the file names the keep-sets are made of: the real distfiles attribute of ebuild packages (ebuild_src.base.distfiles) on SRC_URI strings with
    awkward names -- plus signs in the file name and in directories, EAPI 8 fetch+ / mirror+ prefixes, renames, USE-conditional groups -- must name
    exactly the files the fetcher stores: the rename target where there is one, the last path component otherwise"""
    from pkgcore.ebuild import ebuild_src
    from pkgcore.ebuild.eapi import get_eapi
    from snakeoil.sequences import iflatten_instance
    distfiles = ebuild_src.base._get_attr["distfiles"]
    uris = [("https://example.org/dl/gtk+-2.24.33.tar.xz", "gtk+-2.24.33.tar.xz"), ("https://example.org/c++/libsigc++-3.6.0.tar.xz", "libsigc++-3.6.0.tar.xz"), ("https://example.org/a+b+c.zip", "a+b+c.zip"),
            ("https://example.org/c++/plain.tar", "plain.tar"), ("libsigc++-3.6.0-vendor.tar.xz", "libsigc++-3.6.0-vendor.tar.xz"), ("https://example.org/x.tar.gz -> renamed+1.tar.gz", "renamed+1.tar.gz"),
            ("https://example.org/normal-1.0.tar.gz", "normal-1.0.tar.gz")]
    uris8 = [("fetch+https://example.org/dl/gtk+-3.24.0.tar.xz", "gtk+-3.24.0.tar.xz"), ("mirror+https://example.org/x+y.tgz", "x+y.tgz"), ("fetch+https://example.org/f.tar -> g+h.tar", "g+h.tar"),
             ("mirror+https://example.org/dir+1/plain2.tar", "plain2.tar")]
    cases, fails = 0, []
    for eapi in ("6", "7", "8"):
        pool = uris + (uris8 if eapi == "8" else [])
        lines = [[u] for u in pool] + [pool, list(reversed(pool))] + [[pool[i], ("x?", pool[(i + 1) % len(pool)]), pool[(i + 2) % len(pool)]] for i in range(len(pool))]
        for line in lines:
            cases += 1
            text = " ".join(t[0] if isinstance(t[0], str) and len(t) == 2 and not t[0].endswith("?") else f"{t[0]} ( {t[1][0]} )" for t in line)
            want = sorted(t[1] if not t[0].endswith("?") else t[1][1] for t in line)
            fake = types.SimpleNamespace(data={"SRC_URI": text}, eapi=get_eapi(eapi))
            try:
                got = sorted(iflatten_instance(distfiles(fake)))
            except Exception as e:
                got = f"{type(e).__name__}: {e}"
            if got != want and len(fails) < 4:
                fails.append({"model": {"eapi": eapi, "SRC_URI": text}, "detail": f"EAPI {eapi} SRC_URI={text!r}: distfiles names {got}, the files are {want}"})
    return {"name": "C46.distfile_names.bounded_enumeration", "bound": "EAPI 6 / 7 / 8, SRC_URI strings of 1..11 entries over 7 (+4 for EAPI 8) URIs with plus signs in names and directories, fetch+ / mirror+ prefixes, renames and USE-conditional groups",
            "cases": cases, "failures": fails}


def _unit_value_task(ex, which):
    """parse_time / parse_size on EVERY string: a value is accepted exactly when it is a run of decimal digits followed by one of the units, and then
    means digits x unit (for --modified: that long before now); anything else raises the argument error.  re.match is modelled for the one
    pattern shape these parsers build, ^(\d+)(unit|unit|...)$ or ^(\d+)([UNITS])$ (checked syntactically here; another shape is undecided)."""
    import argparse
    import re as _re
    import z3
    from pyvc.api import call, Interp
    from pyvc.models import Model, ModelHost
    from pyvc.sym import KStr, KInt, SBool, SInt, SStr, OutOfSubset
    import pkgcore.scripts.pclean as M
    DAY = 24 * 60 * 60
    UNITS = {"parse_time": {"s": 1, "min": 60, "h": 3600, "d": DAY, "w": 7 * DAY, "m": 30 * DAY, "y": 365 * DAY}, "parse_size": {"B": 1, "K": 1024, "M": 1024 ** 2, "G": 1024 ** 3}}[which]
    P = f"C46.{which}"
    text = KStr.fresh("value")
    ex.inputs.update({"value": text})
    now = KInt.fresh("now")
    digits = z3.Plus(z3.Range("0", "9"))

    class Match(ModelHost):
        def __init__(self, g1, g2):
            self.g = {1: g1, 2: g2}

        def getattr(self, it_, name):
            if name == "group":
                return Model(lambda it__, i: self.g[i], "match.group", pure=True)
            raise OutOfSubset(f"match.{name}")

    def m_match(it_, pattern, s_, *flags):
        if flags or not isinstance(pattern, str):
            raise OutOfSubset("re.match with flags / a symbolic pattern")
        mo = _re.fullmatch(r"\^\(\\d\+\)\((?:\[(\w+)\]|((?:\w+\|)*\w+))\)\$", pattern)
        if mo is None:
            raise OutOfSubset(f"re.match pattern of another shape: {pattern!r}")
        alts = list(mo.group(1)) if mo.group(1) else mo.group(2).split("|")
        g1, g2 = KStr.fresh("digits"), KStr.fresh("unit")
        shape = z3.And(z3.InRe(g1.t, digits), z3.Or(*[g2.t == z3.StringVal(a) for a in alts]), s_.t == z3.Concat(g1.t, g2.t))
        # the value matches exactly when such a split exists (digits and unit are then determined by it: no unit ends in a digit)
        can = z3.InRe(s_.t, z3.Concat(digits, z3.Union(*[z3.Re(a) for a in alts]) if len(alts) > 1 else z3.Re(alts[0])))
        if it_.ex.branch(SBool(can)):
            it_.ex.assume(SBool(shape))
            return Match(g1, g2)
        return None
    it = Interp(ex, label=P, models={M.re.match: Model(m_match, "re.match"), M.time.time: Model(lambda it_: now, "time.time", pure=True)})
    out = call(it, it.target(PC, which), text)
    ok_re = z3.Concat(digits, z3.Union(*[z3.Re(u) for u in UNITS]))
    wellformed = z3.InRe(text.t, ok_re)
    if out.raised:
        ex.cover("rejects")
        ex.oblige(f"{P}.raises.the_argument_error_only", out.exc.cls is argparse.ArgumentTypeError, kind="exceptional-postcondition")
        ex.oblige(f"{P}.raises.only_for_a_value_that_is_not_digits_and_a_unit", SBool(z3.Not(wellformed)), kind="exceptional-postcondition")
        return
    ex.cover("accepts")
    ex.oblige(f"{P}.ensures.accepts_only_digits_followed_by_a_unit", SBool(wellformed))
    r = out.value
    rt = r.t if isinstance(r, SInt) else z3.IntVal(r) if isinstance(r, int) else None
    ex.oblige(f"{P}.ensures.a_number", rt is not None)
    if rt is None:
        return
    d, u = z3.String("d!c46"), z3.String("u!c46")
    mult = z3.IntVal(0)
    for name, m in UNITS.items():
        mult = z3.If(u == z3.StringVal(name), z3.IntVal(m), mult)
    amount = z3.StrToInt(d) * mult
    want = (now.t - amount) if which == "parse_time" else amount
    ex.oblige(f"{P}.ensures.the_value_is_digits_times_unit" + ("_before_now" if which == "parse_time" else ""),
              SBool(z3.ForAll([d, u], z3.Implies(z3.And(z3.InRe(d, digits), z3.Or(*[u == z3.StringVal(n_) for n_ in UNITS]), text.t == z3.Concat(d, u)), rt == want))))


def t_parse_size(ex):
    _unit_value_task(ex, "parse_size")


def t_parse_time(ex):
    _unit_value_task(ex, "parse_time")


def _replay_unit_value(which):
    def replay(model):
        import argparse
        import re as _re
        from unittest import mock
        import pkgcore.scripts.pclean as M
        DAY = 24 * 60 * 60
        units = {"parse_time": {"s": 1, "min": 60, "h": 3600, "d": DAY, "w": 7 * DAY, "m": 30 * DAY, "y": 365 * DAY}, "parse_size": {"B": 1, "K": 1024, "M": 1024 ** 2, "G": 1024 ** 3}}[which]
        v = model.get("value", "")
        mo = _re.fullmatch("([0-9]+)(" + "|".join(units) + ")", v)
        T0 = 1_700_000_000.0
        with mock.patch("time.time", return_value=T0):
            try:
                got = getattr(M, which)(v)
            except argparse.ArgumentTypeError:
                return mo is not None, f"{which}({v!r}) rejects the value; digits-and-unit: {mo is not None}"
            except Exception as e:
                return True, f"{which}({v!r}) raised {type(e).__name__}: {e}"
        if mo is None:
            return True, f"{which}({v!r}) accepts a value that is not digits followed by a unit (as {got})"
        amount = int(mo.group(1)) * units[mo.group(2)]
        want = T0 - amount if which == "parse_time" else amount
        return got != want, f"{which}({v!r}) = {got}; {mo.group(1)} x {mo.group(2)} is {amount}" + (f" (that long before now: {want})" if which == "parse_time" else "")
    return replay


def enum_option_values(seed):
    """the values behind the age and size filters: pclean's -m / --modified TIME ("skip files modified since TIME": the bound is now minus the
    span) and -s / --size SIZE options as their type= parsers read them.  Spans: s, min, h, d, w, m (a month of 30 days), y (a year of 365 days);
    sizes: B, K, M, G in powers of 1024.  A bound that is too recent / too large lets files through the filters that must be kept."""
    import argparse
    from unittest import mock
    import pkgcore.scripts.pclean as M
    T0 = 1_700_000_000.0
    DAY = 24 * 60 * 60
    spans = {"s": 1, "min": 60, "h": 60 * 60, "d": DAY, "w": 7 * DAY, "m": 30 * DAY, "y": 365 * DAY}
    sizes = {"B": 1, "K": 1024, "M": 1024 * 1024, "G": 1024 * 1024 * 1024}
    values = [0, 1, 2, 3, 7, 10, 12, 30, 60, 365, 1000, 86400]
    cases, fails = 0, []

    def note(model, detail):
        if len(fails) < 5:
            fails.append({"model": model, "detail": detail})
    with mock.patch("time.time", return_value=T0):
        for u, sec in spans.items():
            for v in values:
                cases += 1
                try:
                    got = M.parse_time(f"{v}{u}")
                except Exception as e:
                    note({"option": "--modified", "value": f"{v}{u}"}, f"parse_time('{v}{u}') raised {type(e).__name__}: {e}")
                    continue
                if got != T0 - v * sec:
                    note({"option": "--modified", "value": f"{v}{u}"}, f"--modified {v}{u}: the bound is {T0 - got:.0f} s before now, {v} x {u} is {v * sec} s: files modified in between are "
                                                                      f"{'no longer protected' if T0 - got < v * sec else 'protected although older'}")
        for u, mult in sizes.items():
            for v in values:
                cases += 1
                try:
                    got = M.parse_size(f"{v}{u}")
                except Exception as e:
                    note({"option": "--size", "value": f"{v}{u}"}, f"parse_size('{v}{u}') raised {type(e).__name__}: {e}")
                    continue
                if got != v * mult:
                    note({"option": "--size", "value": f"{v}{u}"}, f"--size {v}{u}: the bound is {got} bytes, {v} x {u} is {v * mult}")
        for f, bad in ((M.parse_time, ("", "1", "m", "1 m", "-1d", "1.5h", "1mo", "1D", "1dd", "d1", "1s ", "1min2")), (M.parse_size, ("", "1", "K", "1 K", "-1K", "1.5M", "1k", "1KB", "K1", "1T"))):
            for b in bad:
                cases += 1
                try:
                    r = f(b)
                    note({"value": b}, f"{f.__name__}({b!r}) accepted a malformed value as {r}")
                except argparse.ArgumentTypeError:
                    pass
                except Exception as e:
                    note({"value": b}, f"{f.__name__}({b!r}) raised {type(e).__name__} instead of the argument error")
    return {"name": "C46.option_values.bounded_enumeration", "bound": f"{len(values)} counts x 7 time units (--modified) and x 4 size units (--size) against the documented meaning of each unit, the clock held still; 22 malformed values", "cases": cases, "failures": fails}


def tasks():
    return [Task("C46.dist_cleaning", None, [(PC, "_dist_validate_args"), (PC, "_setup_shared_opts"), (PC, "_setup_restrictions")], enumerate=enum_cleaning),
            Task("C46.distfile_names", None, [("src/pkgcore/ebuild/ebuild_src.py", "base.distfiles")], enumerate=enum_distfile_names),
            Task("C46.option_values", None, [(PC, "parse_time"), (PC, "parse_size")], enumerate=enum_option_values),
            Task("C46.parse_size", t_parse_size, [(PC, "parse_size")]),
            Task("C46.parse_time", t_parse_time, [(PC, "parse_time")]),
            Task("C46._remove", t_remove, [(PC, "_remove")]),
            Task("C46.file_filters", t_file_filters, [(PC, "_setup_file_opts"), (PC, "Filters.run"), (PC, "Filters.append")])]


REPLAY = {"C46.parse_time.": _replay_unit_value("parse_time"), "C46.parse_size.": _replay_unit_value("parse_size")}
