"""C46 -- distfile cleaning never deletes a distfile that must be kept (DESIGN.md section 4, C46)."""
import itertools
import os
import random
import types
from pyvc.api import Task

PROPERTY = "C46"
PC = "src/pkgcore/scripts/pclean.py"
LEVEL = "other"
EXPLANATION = ("bounded stand-in only: _dist_validate_args is an argparse completion hook of ~110 lines that mixes repository iteration with name-based regular "
               "expressions built at run time (re.split / re.compile on package names) and lazily evaluated generators; the meaning of the target selection is a "
               "statement about those regular expressions, which the self-built generator cannot encode.  The real hook is run on seeded repositories, installed "
               "sets and distdirs under every option combination and its removal list is compared with the keep-rules of the statement.")

MANIFEST = {
    "text": "Bounded stand-in: seeded universes (4..6 packages with 1..2 versions, distfile names derived from and colliding across package "
            "names such as foo / foo-bin, fetch-restricted packages, an installed set whose distfiles partly left the tree, stray files "
            "in the distdir) under every combination of targets (none, a package, a glob), --installed, --exists, --fetch-restricted, an "
            "exclusion pattern and a size filter: the real _dist_validate_args computes the removal list in a scratch distdir; it must "
            "contain only files of the distdir that pass the file filters and, with targets, that carry a target package's name, and no "
            "file used by an installed package (-I), by any package in the tree (-E), by a fetch-restricted package (-f) or by a package "
            "matching the exclusion pattern.",
    "note": "Trusted: the reference reading of 'selected by the cleaning targets' (the file is a distfile of a matched package or its name "
            "starts with a matched package's name); repository iteration (C08); package metadata.",
}
ASSUMPTIONS = ["with targets, a file is selectable only if it belongs to a matched package, its name starts with the name of a matched package, or it shares the name stem (up to the version) of one of a matched package's distfiles: pclean's way of finding files of versions that left the tree"]


def mk_universe(rnd):
    from pkgcore.ebuild.cpv import VersionedCPV
    names = rnd.sample(["foo", "foo-bin", "bar", "libfoo", "bar-utils", "baz"], rnd.choice((4, 5, 6)))
    tree = {}
    for n in names:
        for v in rnd.sample(["1.0", "2.0"], rnd.choice((1, 2))):
            files = [f"{n}-{v}.tar.gz"]
            if rnd.random() < .3:
                files.append(f"{n}-{v}-patches.tar.xz")
            if rnd.random() < .2:
                files.append(f"shared-data-{v}.zip")
            tree[f"app-misc/{n}-{v}"] = (tuple(files), ("fetch",) if rnd.random() < .25 else ())
    installed = {}
    for cpv, (files, restr) in tree.items():
        if rnd.random() < .3:
            installed[cpv] = files
    if rnd.random() < .5:
        installed["app-misc/old-0.5"] = ("old-0.5.tar.gz",)
    return tree, installed


class _Pkg:
    def __init__(self, cpvstr, distfiles, restrict):
        from pkgcore.ebuild.cpv import VersionedCPV
        from pkgcore.ebuild.atom import atom
        c = VersionedCPV(cpvstr)
        self.cpvstr, self.category, self.package, self.fullver, self.version, self.revision, self.key = c.cpvstr, c.category, c.package, c.fullver, c.version, c.revision, c.key
        self.distfiles, self.restrict = tuple(distfiles), tuple(restrict)
        self.unversioned_atom = atom(c.key)
        self.versioned_atom = atom("=" + c.cpvstr)

    def __lt__(self, o):
        return self.cpvstr < o.cpvstr

    def __hash__(self):
        return hash(self.cpvstr)

    def __eq__(self, o):
        return isinstance(o, _Pkg) and o.cpvstr == self.cpvstr


class _Repo:
    def __init__(self, pkgs):
        self.pkgs = list(pkgs)

    def __iter__(self):
        return iter(self.pkgs)

    def itermatch(self, restrict, sorter=iter, **kw):
        return sorter(p for p in self.pkgs if restrict.match(p))


def _stem(f):
    """leading name of a distfile, up to the first '-<digit>'"""
    import re
    return re.split(r"-(?=\d)", f, maxsplit=1)[0].lower()


def enum_cleaning(seed):
    import shutil
    import tempfile
    from pkgcore.scripts import pclean
    from pkgcore.util.parserestrict import parse_match
    thorough = os.environ.get("VERIF_TIER") == "thorough"
    scratch = tempfile.mkdtemp(prefix="c46.", dir=os.environ.get("PYVC_SCRATCH", "/var/tmp"))
    fails, cases = [], 0
    try:
        for s in range(60 if thorough else 20):
            rnd = random.Random(seed * 1000 + s)
            tree, installed = mk_universe(rnd)
            distdir = os.path.join(scratch, f"d{s}")
            os.makedirs(distdir)
            present = set()
            for files, _ in tree.values():
                present.update(f for f in files if rnd.random() < .8)
            for files in installed.values():
                present.update(files)
            names = sorted({c.split("/")[1].rsplit("-", 1)[0] for c in tree})
            present.update(f"{rnd.choice(names)}-0.{i}.tar.gz" for i in range(2))     # older versions no longer in the tree
            present.update(["unrelated.bin", "README"])
            for f in present:
                with open(os.path.join(distdir, f), "w") as fh:
                    fh.write("x" * (10 if hash(f) % 2 else 2000))
            pkgs = [_Pkg(c, f, r) for c, (f, r) in sorted(tree.items())]
            inst = [_Pkg(c, f, ()) for c, f in sorted(installed.items())]
            repo = _Repo(pkgs)
            for target, excl, (opt_i, opt_e, opt_f), size in itertools.product((None, names[0], names[-1], "foo*"), (None, names[1]), itertools.product((False, True), repeat=3), (None, 1000)):
                cases += 1
                filters = pclean.Filters()
                if size is not None:
                    filters.append(lambda x, size=size: os.stat(x).st_size < size)
                ns = types.SimpleNamespace(domain=types.SimpleNamespace(distdir=distdir, all_installed_repos=inst, source_repos=[]), repo=repo,
                                           restrict=parse_match(target) if target else None, exclude_restrict=parse_match(excl) if excl else None,
                                           exclude_installed=opt_i, exclude_exists=opt_e, exclude_fetch_restricted=opt_f, file_filters=filters)
                model = {"seed": s, "tree": {k: [list(v[0]), list(v[1])] for k, v in tree.items()}, "installed": {k: list(v) for k, v in installed.items()}, "distdir": sorted(present),
                         "target": target, "exclude": excl, "installed_opt": opt_i, "exists_opt": opt_e, "fetch_restricted_opt": opt_f, "size_below": size}
                try:
                    pclean._dist_validate_args(None, ns)
                    doomed = sorted(os.path.basename(f) for _fn, f in ns.remove)
                except Exception as e:
                    if len(fails) < 5:
                        fails.append({"model": model, "detail": f"pclean dist hook raised {type(e).__name__}: {e} (target={target}, -I={opt_i} -E={opt_e} -f={opt_f}, exclude={excl})"})
                    continue
                matched = [p for p in pkgs if ns.restrict.match(p)] if target else pkgs
                keep_reason = {}
                if opt_i:
                    for p in inst:
                        for f in p.distfiles:
                            keep_reason.setdefault(f, f"used by installed {p.cpvstr} (-I)")
                if opt_e:
                    for p in pkgs:
                        for f in p.distfiles:
                            keep_reason.setdefault(f, f"used by {p.cpvstr} in the tree (-E)")
                if opt_f:
                    for p in pkgs:
                        if "fetch" in p.restrict:
                            for f in p.distfiles:
                                keep_reason.setdefault(f, f"used by fetch-restricted {p.cpvstr} (-f)")
                if excl:
                    for p in pkgs:
                        if ns.exclude_restrict.match(p):
                            for f in p.distfiles:
                                keep_reason.setdefault(f, f"used by {p.cpvstr}, matched by the exclusion pattern")
                probs = []
                for f in doomed:
                    if f not in present:
                        probs.append(f"{f} is not in the distdir")
                    elif f in keep_reason:
                        probs.append(f"{f} would be removed although it is {keep_reason[f]}")
                    elif size is not None and os.stat(os.path.join(distdir, f)).st_size >= size:
                        probs.append(f"{f} would be removed although it does not pass the size filter")
                    elif target and not (any(f in p.distfiles for p in matched) or any(f.lower().startswith(p.package.lower()) for p in matched)
                                         or any(_stem(f) == _stem(g) for p in matched for g in p.distfiles)):
                        probs.append(f"{f} would be removed although it has nothing to do with the target {target!r}")
                if probs and len(fails) < 5:
                    fails.append({"model": model, "detail": f"pclean dist target={target} -I={opt_i} -E={opt_e} -f={opt_f} exclude={excl} size<{size}: " + "; ".join(probs[:3]) + f"; tree {model['tree']}"})
            shutil.rmtree(distdir, ignore_errors=True)
    finally:
        shutil.rmtree(scratch, ignore_errors=True)
    return {"name": "C46.dist_cleaning.bounded_enumeration", "bound": f"{60 if thorough else 20} seeded universes (4..6 packages incl. name-colliding foo / foo-bin / libfoo, fetch-restricted packages, installed sets, stray and outdated files) x "
            "4 targets x 2 exclusion patterns x 8 combinations of -I -E -f x 2 size filters; removal list compared with the keep rules", "cases": cases, "failures": fails}


def tasks():
    return [Task("C46.dist_cleaning", None, [(PC, "_dist_validate_args")], enumerate=enum_cleaning)]


REPLAY = {}
