"""C03 -- atom syntax acceptance matches the PMS grammar for each EAPI and round-trips (DESIGN.md section 4, C03)."""
import itertools
import types
import random
import re
import z3
from pyvc.api import Task, call, Interp
from pyvc.sym import KStr, KBool, SBool, SStr, SObj, And, Or, Not

PROPERTY = "C03"
ATOM = "src/pkgcore/ebuild/atom.py"
LEVEL = "other"
EXPLANATION = ("atom.__init__ is a 200-line slicing parser whose acceptance set has to equal a regular language per EAPI; no contract within reach "
               "of the self-built generator characterises find()/slice positions inductively, so acceptance is a bounded stand-in only "
               "(grammar-generated atoms and their single-edit mutations against a regular-expression oracle built from PMS 8.3 per EAPI).  "
               "What is discharged deductively is the rendering kernel: atom.__str__ is the grammar concatenation of the parsed fields.")

MANIFEST = {
    "text": "Proof that atom.__str__ renders, for arbitrary field values, blocker + operator + category/package-version (+ '*' for the "
            "glob operator) + ':slot[/subslot][=]' or ':operator' + '::repo' + '[use,...]' in exactly that order, so that the round "
            "trip reduces to the parser's field extraction.  Acceptance and round trip are a bounded stand-in: for EAPI 0..8 and no "
            "EAPI, grammar-generated atoms (every operator, blockers, slots, sub-slots, slot operators, USE dependencies with and "
            "without defaults, repository ids, package names with version-like tails) and every single-character deletion, insertion "
            "and replacement of them are parsed; the verdict must equal a regular-expression oracle transcribed from PMS 8.3 with that "
            "EAPI's features, rejection must be MalformedAtom, and every accepted atom must render to text that parses to an equal atom "
            "matching the same packages.",
    "note": "Trusted: the oracle's transcription of PMS 8.3 (category, package, version, slot, USE flag and repository name syntax); "
            "cpv.CPV's splitting of category/package-version; pyvc encoder.",
}
ASSUMPTIONS = ["~ with a revision is invalid (the operator ignores revisions; portage and pkgcore reject it)",
               "repository ids (::repo) are a pkgcore extension, accepted only when no EAPI is given"]


def t_str(ex):
    import pkgcore.ebuild.atom as A
    P = "C03.atom.__str__"
    it = Interp(ex, label=P)
    op = ("", "=", ">=", "~", "=*")[ex.choose(5)]
    blocks = ("", "!", "!!")[ex.choose(3)]
    slotform = ("none", "slot", "slot/sub", "slot=", "slot/sub=", ":*", ":=")[ex.choose(7)]
    repo = bool(ex.choose(2))
    nuse = ex.choose(3)
    cpvstr, slot, sub, rid = KStr.fresh("cpvstr"), KStr.fresh("slot"), KStr.fresh("subslot"), KStr.fresh("repo_id")
    for s in (slot, sub, rid):
        ex.assume(s.length() > 0)
    use = tuple(KStr.fresh(f"use{i}") for i in range(nuse))
    f = {"op": op, "cpvstr": cpvstr, "blocks": bool(blocks), "blocks_strongly": blocks == "!!",
         "slot": slot if slotform.startswith("slot") else None, "subslot": sub if "/sub" in slotform else None,
         "slot_operator": "=" if slotform.endswith("=") else ("*" if slotform == ":*" else None),
         "repo_id": rid if repo else None, "use": use or None}
    out = call(it, it.target(ATOM, "atom.__str__"), SObj(A.atom, f))
    ex.oblige(f"{P}.raises.nothing", not out.raised, kind="exceptional-postcondition")
    if out.raised:
        return
    parts = [z3.StringVal(blocks), z3.StringVal("=" if op == "=*" else op), cpvstr.t]
    if op == "=*":
        parts.append(z3.StringVal("*"))
    if slotform.startswith("slot"):
        parts += [z3.StringVal(":"), slot.t]
        if "/sub" in slotform:
            parts += [z3.StringVal("/"), sub.t]
        if slotform.endswith("="):
            parts.append(z3.StringVal("="))
    elif slotform in (":*", ":="):
        parts.append(z3.StringVal(slotform))
    if repo:
        parts += [z3.StringVal("::"), rid.t]
    if use:
        parts.append(z3.StringVal("["))
        for i, u in enumerate(use):
            if i:
                parts.append(z3.StringVal(","))
            parts.append(u.t)
        parts.append(z3.StringVal("]"))
    want = z3.Concat(*parts) if len(parts) > 1 else parts[0]
    r = out.value
    rt = r.t if isinstance(r, SStr) else z3.StringVal(r)
    ex.oblige(f"{P}.ensures.is_the_grammar_concatenation_of_the_fields[{blocks}{op or 'no-op'} {slotform} {'::repo' if repo else ''} {nuse} use]", SBool(rt == want))


# ------------------------------------------------------------------ oracle ----
CAT = r"[A-Za-z0-9_][A-Za-z0-9+_.-]*"
PKGCHARS = r"[A-Za-z0-9_][A-Za-z0-9+_-]*"
VER = r"\d+(?:\.\d+)*[a-z]?(?:_(?:alpha|beta|pre|rc|p)\d*)*"
REV = r"-r\d+"
SLOT = r"[A-Za-z0-9_][A-Za-z0-9+_.-]*"
FLAG = r"[A-Za-z0-9][A-Za-z0-9+_@-]*"
REPO = r"[A-Za-z0-9_][A-Za-z0-9_-]*"
_ver_tail = re.compile(rf"-{VER}(?:{REV})?$")


def oracle(s, eapi):
    """PMS 8.3 with the features of the EAPI (None = pkgcore's permissive mode: latest features + ::repo)"""
    e = 99 if eapi is None else int(eapi)
    m = re.fullmatch(r"(?P<blk>!!?)?(?P<op><=|>=|<|>|=|~)?(?P<cpv>[^:\[\]!<>=~*]+?)(?P<glob>\*)?(?P<slot>:[^:\[\]]*)?(?P<repo>::[^\[\]]*)?(?P<use>\[[^\[\]]*\])?", s)
    if not m:
        return False
    blk, op, cpv, glob, slot, repo, use = (m.group(k) for k in ("blk", "op", "cpv", "glob", "slot", "repo", "use"))
    if blk == "!!" and e < 2:
        return False
    if glob and op != "=":
        return False
    mm = re.fullmatch(rf"({CAT})/({PKGCHARS})", cpv)
    if op:
        mv = re.fullmatch(rf"({CAT})/({PKGCHARS}?)-({VER})({REV})?", cpv)
        # the package name is everything before the last hyphen-version; it must itself be a valid name
        cands = [(i) for i in range(len(cpv)) if cpv[i] == "-" and re.fullmatch(rf"{VER}(?:{REV})?", cpv[i + 1:])]
        ok = False
        for i in cands:
            head = cpv[:i]
            hm = re.fullmatch(rf"({CAT})/({PKGCHARS})", head)
            if hm and not _ver_tail.search(hm.group(2)):
                ok = True
                if op == "~" and re.search(rf"{REV}$", cpv[i:]):
                    ok = False
                break
        if not ok:
            return False
    else:
        if not mm or _ver_tail.search(mm.group(2)):
            return False
    if slot is not None:
        body = slot[1:]
        if e < 1:
            return False
        if e >= 5:
            if body in ("*", "="):
                pass
            else:
                if body.endswith("="):
                    body = body[:-1]
                parts = body.split("/")
                if len(parts) > 2 or not all(re.fullmatch(SLOT, p) for p in parts):
                    return False
        elif not re.fullmatch(SLOT, body):
            return False
    if repo is not None:
        if eapi is not None or not re.fullmatch(REPO, repo[2:]):
            return False
    if use is not None:
        if e < 2:
            return False
        for tok in use[1:-1].split(","):
            d = r"(?:\([+-]\))?" if e >= 4 else ""
            if not re.fullmatch(rf"(?:-?{FLAG}{d}|!?{FLAG}{d}[=?])", tok):
                return False
    return True


def _only_plus_slot(s, eapi):
    """would the oracle accept the string with the leading '+' of the slot / sub-slot name replaced by a letter?"""
    m = re.search(r":([^:\[\]]*)", s)
    if not m or "+" not in m.group(1):
        return False
    body = m.group(1)
    fixed = "/".join(("x" + p[1:]) if p.startswith("+") else p for p in body.split("/"))
    return fixed != body and oracle(s[:m.start(1)] + fixed + s[m.end(1):], eapi)


def gen_atoms(rnd, n):
    cats = ["cat", "dev-lang", "x11_y.z+", "9cat"]
    pkgs = ["pkg", "foo-bar", "a+b", "pkg-1a-x", "diff-mode-", "foo-r1x", "gtk+", "x-1.0-y", "p_1", "foo-9"]
    vers = ["1", "1.2.3", "1.0a", "2_alpha1", "3_p20200101_rc", "1-r1", "0.9_beta-r12", "01.02"]
    out = set()
    for _ in range(n):
        op = rnd.choice(["", "", "=", "<", ">=", "~", "<=", ">", "=*"])
        s = f"{rnd.choice(cats)}/{rnd.choice(pkgs)}"
        if op:
            s = (op if op != "=*" else "=") + s + "-" + rnd.choice(vers) + ("*" if op == "=*" else "")
        s = rnd.choice(["", "", "!", "!!"]) + s
        sl = rnd.choice(["", "", ":0", ":1.2_x", ":0/1", ":0=", ":0/2.1=", ":*", ":=", ":slot+-"])
        s += sl
        if rnd.random() < .2:
            s += "::" + rnd.choice(["gentoo", "my_repo-1"])
        if rnd.random() < .4:
            toks = rnd.sample(["a", "-b", "c=", "!d=", "e?", "!f?", "g(+)", "-h(-)", "i(+)=", "!j(-)?", "k+_@-1"], rnd.choice([1, 2, 3]))
            s += "[" + ",".join(toks) + "]"
        out.add(s)
    return sorted(out)


ALPHABET = "ab1-_.+/:=<>~!*[](),?0 r@"


def mutations(s):
    for i in range(len(s)):
        yield s[:i] + s[i + 1:]
    for i in range(len(s) + 1):
        for c in "-1:=*![]/ ":
            yield s[:i] + c + s[i:]
    for i in range(len(s)):
        for c in "-.:/=*+(":
            if c != s[i]:
                yield s[:i] + c + s[i + 1:]


def enum_atoms(seed):
    import os
    from pkgcore.ebuild.atom import atom
    from pkgcore.ebuild.errors import MalformedAtom
    from pkgcore.test.misc import FakePkg
    thorough = os.environ.get("VERIF_TIER") == "thorough"
    rnd = random.Random(seed)
    base = gen_atoms(rnd, 400 if thorough else 120)
    # package names made of hyphen-joined chunks that look like versions, revisions or plain words, bare and with a version
    # (these are exact strings, not mutated): the "must not end in a hyphen followed by a version" rule at every chunk count
    CHUNKS = ("7", "3d", "1_p2", "r1", "r05", "a", "1a", "x_y", "1.2")
    chunk_names = ["-".join(t) for n_ in (1, 2, 3) for t in itertools.product(CHUNKS, repeat=n_)]
    exact = [f"cat/{n_}" for n_ in chunk_names] + [f"=cat/{n_}-1.0" for n_ in chunk_names if thorough or hash(n_) % 3 == 0] + [f">=cat/{n_}-2-r3" for n_ in chunk_names[:90]]
    # revision spellings under every operator (the glob compares text, the others numbers): the rendered text must select the same versions
    exact += [f"{op}cat/pkg-{v}{r}{g}" for op, g in (("=", ""), ("=", "*"), ("~", ""), (">=", ""), ("<", "")) for v in ("1", "1.0", "1.0_p1") for r in ("", "-r0", "-r00", "-r1", "-r01", "-r10")
              if not (op == "~" and r)]

    def probes_for(a):
        """packages around the atom's version: the same name, the revision spelled in several ways, neighbours"""
        from pkgcore.test.misc import FakePkg
        if a.version is None:
            return [FakePkg(f"{a.key}-1", slot=a.slot or "0")]
        out = []
        for v in (a.version, a.version + ".1", a.version + "0", a.version + "_p1", "0", "99"):
            for r in ("", "-r0", "-r1", "-r01", "-r10", "-r2"):
                try:
                    out.append(FakePkg(f"{a.key}-{v}{r}", slot=a.slot or "0", subslot=a.subslot, repo=types.SimpleNamespace(repo_id=a.repo_id or "gentoo")))
                except Exception:
                    pass
        return out

    def verdicts(a, pkgs):
        out = []
        for p_ in pkgs:
            try:
                out.append(bool(a.match(p_)))
            except Exception as ex_:
                out.append(type(ex_).__name__)
        return out
    fails, cases = [], 0
    kinds = {}

    def note(kind, model, detail):
        if kind == "accepts_invalid" and _only_plus_slot(model["atom"], model["eapi"]):
            kind, model = "accepts_invalid_plus_slot", dict(model, slot_name_begins_with_plus=True)
        kinds[kind] = kinds.get(kind, 0) + 1
        if kinds[kind] <= int(__import__("os").environ.get("C03_KEEP", "2")):
            fails.append({"model": dict(model, kind=kind), "detail": detail})
    eapis = [None, "0", "1", "2", "4", "5", "8"] if not thorough else [None] + [str(i) for i in range(9)]
    seen = set()
    for b in base + [None]:
        if b is None:
            variants = exact
        else:
            variants = [b] + (list(mutations(b)) if thorough or rnd.random() < .25 else rnd.sample(list(mutations(b)), 12))
        for s in variants:
            if not s or s in seen:
                continue
            seen.add(s)
            for e in eapis:
                cases += 1
                want = oracle(s, e)
                try:
                    a = atom(s) if e is None else atom(s, eapi=e)
                    got = True
                except MalformedAtom:
                    got = False
                except Exception as ex_:
                    note(f"wrong_exception:{type(ex_).__name__}", {"atom": s, "eapi": e}, f"atom({s!r}, eapi={e}) raised {type(ex_).__name__}: {ex_} instead of accepting or raising MalformedAtom")
                    continue
                if got != want:
                    note("accepts_invalid" if got else "rejects_valid", {"atom": s, "eapi": e}, f"atom({s!r}, eapi={e}) is {'accepted' if got else 'rejected'}; the PMS grammar for that EAPI says {'valid' if want else 'invalid'}")
                    continue
                if got:
                    text = str(a)
                    try:
                        b2 = atom(text) if e is None else atom(text, eapi=e)
                    except Exception as ex_:
                        note("render_unparsable", {"atom": s, "eapi": e, "rendered": text}, f"atom({s!r}, eapi={e}) renders as {text!r}, which does not parse: {ex_}")
                        continue
                    if b2 != a or str(b2) != text:
                        note("render_not_equal", {"atom": s, "eapi": e, "rendered": text}, f"atom({s!r}, eapi={e}) renders as {text!r}, which parses to a different atom {b2!r}")
                    elif e in (None, "8") and not a.use:
                        pk = probes_for(a)
                        va, vb = verdicts(a, pk), verdicts(b2, pk)
                        if va != vb:
                            i_ = next(i for i in range(len(pk)) if va[i] != vb[i])
                            note("render_matches_differently", {"atom": s, "eapi": e, "rendered": text, "package": pk[i_].cpvstr},
                                 f"atom({s!r}, eapi={e}) renders as {text!r}; on {pk[i_].cpvstr} the atom says {va[i_]}, the atom parsed from its text says {vb[i_]}")
    return {"name": "C03.atoms.bounded_enumeration", "bound": f"{len(base)} grammar-generated atoms and {'all' if thorough else 'a sample of'} their single-character deletions / insertions / replacements and {len(exact)} atoms over package names of 1..3 version- / revision- / word-like chunks ({len(seen)} strings) "
            f"under EAPI {[e or 'none' for e in eapis]}: verdict against the PMS 8.3 oracle, exception type, render/parse round trip (equal, same text, and -- for atoms without USE deps -- the same verdict on 36 packages around the atom's version, revisions spelled -r0 / -r01 / -r10 included)", "cases": cases, "failures": fails}


def tasks():
    return [
        Task("C03.atom.__str__", t_str, [(ATOM, "atom.__str__")]),
        Task("C03.atoms", None, [(ATOM, "atom.__init__")], enumerate=enum_atoms),
    ]


REPLAY = {}
WITNESSES = {"slot_name_begins_with_plus": lambda m: bool(m.get("slot_name_begins_with_plus"))}
