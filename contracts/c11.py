"""C11 -- stacked USE configuration applies entries in order, including -* resets (DESIGN.md section 4, C11)."""
import itertools
import random
import z3
from pyvc.api import Task, call, Interp, LoopSpec
from pyvc.sym import (KStr, KSet, KSeq, KRef, SStr, SSet, SSeq, SBool, SInt, SRef, MutSet, And, Or, Not, Implies)
from pyvc import theory, models

PROPERTY = "C11"
FILE = "src/pkgcore/ebuild/misc.py"
STR = z3.StringSort()
SETSTR = z3.SetSort(STR)
CH = KRef("chunk")

MANIFEST = {
    "text": "Unbounded proof that incremental_chunked is the left fold of the property's step function over any number of chunks, "
            "each with any number of negations and additions over arbitrary flag names (outer invariant: the set equals the fold of "
            "the first k chunks; inner invariant: the prefixes of the first j wildcard negations have been dropped): per chunk, "
            "-* clears, each -PREFIX_* drops the earlier flags with that prefix, the negations are removed, the additions are "
            "added, in that order.  The grouping layer (ChunkedDataDict add_bare_global / update_from_stream / merge / clone / "
            "freeze / optimize with _build_cp_atom_payload's collapsing, rendered with render_pkg) is a bounded stand-in only: "
            "every history of up to 3 entries (and seeded random histories of up to 6) over 4 keys, 4 flags, -* and -X_* fed "
            "through every operation mix is rendered for matching and non-matching packages and compared with the plain fold.",
    "note": "Trusted: the step function transcribed from the property statement; flag names are strings and a negation list holds "
            "no duplicates of meaning beyond set semantics; pyvc encoder.  Not under contract: domain / profile assembly of the "
            "stacks (which dictionaries are merged in which order), PayloadDict.",
}
ASSUMPTIONS = [
    "spec step per chunk: if '*' is negated the set is cleared; every negation PREFIX_* removes the flags starting with 'PREFIX_' (the glob without its star: X_* clears X_a and X_, not Xy); then the negations are removed and the additions added",
    "ChunkedDataDict is not mutated after optimize() without an intervening clone() (optimize leaves tuples as values)",
]


def wild(t):
    return z3.SuffixOf(z3.StringVal("_*"), t)


def prefix_set(t):
    f = z3.String("f!pref")
    return z3.Lambda([f], z3.PrefixOf(z3.SubString(t, 0, z3.Length(t) - 1), f))


def t_chunked(ex):
    P = "C11.incremental_chunked"
    chunks = KSeq(CH, "list").fresh("chunks")
    negf = theory.ufun("chunk_neg", CH.sort, z3.SeqSort(STR))
    posf = theory.ufun("chunk_pos", CH.sort, z3.SeqSort(STR))
    orig0 = KSet(KStr).fresh("orig0")
    F = theory.ufun("F_chunked", z3.IntSort(), SETSTR)
    D = theory.ufun("D_prefix_drop", SETSTR, CH.sort, z3.IntSort(), SETSTR)
    theory._add_axiom(("F", "base"), F(0) == orig0.t)

    def neg_of(c):
        return SSeq(negf(c), KSeq(KStr, "tuple"))

    def pos_of(c):
        return SSeq(posf(c), KSeq(KStr, "tuple"))

    def cleared(S, c):
        return z3.If(neg_of(c).contains("*").t, z3.EmptySet(STR), S)

    def unfoldD(S1, c, j):
        jt = j.t if isinstance(j, SInt) else z3.IntVal(j)
        n = negf(c)
        theory._add_axiom(("D", "base", S1.get_id(), c.get_id()), D(S1, c, 0) == S1)
        theory._add_axiom(("D", "unfold", S1.get_id(), c.get_id(), z3.simplify(jt).get_id()),
                          z3.Implies(z3.And(jt >= 0, jt < z3.Length(n)),
                                     D(S1, c, jt + 1) == z3.If(wild(n[jt]), z3.SetDifference(D(S1, c, jt), prefix_set(n[jt])), D(S1, c, jt))))

    def step(S, c):
        S1 = cleared(S, c)
        S2 = D(S1, c, z3.Length(negf(c)))
        return z3.SetUnion(z3.SetDifference(S2, theory.elems(neg_of(c)).t), theory.elems(pos_of(c)).t)

    def unfoldF(k):
        kt = k.t if isinstance(k, SInt) else z3.IntVal(k)
        theory._add_axiom(("F", "unfold", z3.simplify(kt).get_id()),
                          z3.Implies(z3.And(kt >= 0, kt < z3.Length(chunks.t)), F(kt + 1) == step(F(kt), chunks.t[kt])))

    st = {}

    def inv_outer(L, k):
        unfoldF(k)
        kt = k.t if isinstance(k, SInt) else z3.IntVal(k)
        st["k"] = kt
        return SBool(L.orig.val.t == F(kt))

    def inv_inner(L, j):
        c = L.cinst.t
        S1 = cleared(F(st["k"]), c)
        unfoldD(S1, c, j)
        jt = j.t if isinstance(j, SInt) else z3.IntVal(j)
        return SBool(L.orig.val.t == D(S1, c, jt))

    it = Interp(ex, label=P, loops={("incremental_chunked", 0): LoopSpec(inv_outer, mutates=["orig"], havoc={"orig": KSet(KStr)}),
                                    ("incremental_chunked", 1): LoopSpec(inv_inner, mutates=["orig"], havoc={"orig": KSet(KStr)})})
    it.ref_attrs = {("chunk", "neg"): lambda it_, o: neg_of(o.t), ("chunk", "pos"): lambda it_, o: pos_of(o.t)}
    if getattr(ex, "mode", None):
        for i in range(ex.mode.get("unroll", 3) + 1):
            unfoldF(i)
            for j in range(ex.mode.get("unroll", 3) + 1):
                unfoldD(cleared(F(z3.IntVal(i)), chunks.t[i]), chunks.t[i], j)
    orig = MutSet(orig0)
    ex.inputs.update({"orig": orig0, "chunks": chunks})
    out = call(it, it.target(FILE, "incremental_chunked"), orig, chunks)
    ex.oblige(f"{P}.raises.nothing", not out.raised, kind="exceptional-postcondition")
    if out.raised:
        return
    ex.cover("chunked.return")
    ex.oblige(f"{P}.ensures.is_left_fold_of_the_chunk_step", SBool(orig.val.t == F(z3.Length(chunks.t))))


def t_step_meaning(ex):
    """the step used above, read per flag: what the property statement says about one entry (lemma, no program code)"""
    P = "C11.step"
    S = KSet(KStr).fresh("S")
    x = KStr.fresh("x")
    n0, n1 = KStr.fresh("n0"), KStr.fresh("n1")
    pos = KSet(KStr).fresh("pos")
    # a chunk with two negations, unfolded by hand
    S1 = z3.If(z3.Or(n0.t == z3.StringVal("*"), n1.t == z3.StringVal("*")), z3.EmptySet(STR), S.t)
    D1 = z3.If(wild(n0.t), z3.SetDifference(S1, prefix_set(n0.t)), S1)
    D2 = z3.If(wild(n1.t), z3.SetDifference(D1, prefix_set(n1.t)), D1)
    R = z3.SetUnion(z3.SetDifference(D2, z3.SetAdd(z3.SetAdd(z3.EmptySet(STR), n0.t), n1.t)), pos.t)
    inR = z3.IsMember(x.t, R)

    def covered(n):
        return z3.And(wild(n), z3.PrefixOf(z3.SubString(n, 0, z3.Length(n) - 1), x.t))
    star = z3.Or(n0.t == z3.StringVal("*"), n1.t == z3.StringVal("*"))
    want = z3.Or(z3.IsMember(x.t, pos.t),
                 z3.And(z3.IsMember(x.t, S.t), z3.Not(star), x.t != n0.t, x.t != n1.t, z3.Not(covered(n0.t)), z3.Not(covered(n1.t))))
    ex.oblige(f"{P}.lemma.flag_survives_iff_added_or_kept_and_not_negated_cleared_or_prefix_dropped", SBool(inR == want), kind="lemma")


# ------------------------------------------------------------- bounded stand-in: the grouping layer ----
KEYS = [None, "a/b", "=a/b-1", "a/c"]
FLAGS = ["x", "y", "X_a", "X_b"]
NEGS = FLAGS + ["*", "X_*"]


def ref_step(s, neg, pos):
    s = set(s)
    if "*" in neg:
        s.clear()
    for n in neg:
        if n.endswith("_*"):
            s = {f for f in s if not f.startswith(n[:-1])}
    s -= set(neg)
    s |= set(pos)
    return s


def ref_render(hist, pkg, pre):
    from pkgcore.ebuild.atom import atom
    s = set(pre)
    for k, neg, pos in hist:
        if k is None or atom(k).match(pkg):
            s = ref_step(s, neg, pos)
    return s


OPS = ("bare", "stream", "merge1", "merge2", "merge_frozen")
BETWEEN = ("", "clone", "freeze_thaw", "optimize")


def build(hist, ops, between, watch=None):
    """feed the history through the given operation per entry ('merge2' takes two entries), with `between` applied after each;
    watch, when given, collects (step, dict left behind by a clone(), what it rendered at that moment): a dict nobody touches any
    more must keep rendering the same, whatever is done to its clone"""
    from pkgcore.ebuild.misc import ChunkedDataDict, chunked_data
    from pkgcore.ebuild.atom import atom
    from pkgcore.restrictions import packages
    d = ChunkedDataDict()
    i = 0
    step_no = 0
    while i < len(hist):
        op = ops[step_no % len(ops)]
        btw = between[step_no % len(between)]
        step_no += 1
        take = 2 if op == "merge2" else 1
        sub = hist[i:i + take]
        i += take
        if op in ("bare", "stream"):
            k, neg, pos = sub[0]
            if k is None and op == "bare":
                d.add_bare_global(neg, pos)
            else:
                d.update_from_stream([chunked_data(packages.AlwaysTrue if k is None else atom(k), neg, pos)])
        else:
            o = ChunkedDataDict()
            for k, neg, pos in sub:
                if k is None:
                    o.add_bare_global(neg, pos)
                else:
                    o.update_from_stream([chunked_data(atom(k), neg, pos)])
            if op == "merge_frozen":
                o.freeze()
            d.merge(o)
        if btw == "clone":
            if watch is not None:
                watch.append((step_no, d, [sorted(d.render_pkg(p_, pre_)) for p_ in _pkgs() for pre_ in ((), ("x", "X_a"))]))
            d = d.clone()
        elif btw == "freeze_thaw":
            d.freeze()
            d = d.clone(unfreeze=True)
        elif btw == "optimize":
            d.optimize()
            d = d.clone()
    return d


def _pkgs():
    from pkgcore.test.misc import FakePkg
    return [FakePkg("a/b-1"), FakePkg("a/b-2"), FakePkg("a/c-1")]


def _check(hist, ops, between, pkgs, fails, final=""):
    watch = []
    model0 = {"history": [list(map(str, h)) for h in hist], "operations": list(ops), "between": list(between), "final": final}
    try:
        d = build(hist, ops, between, watch)
        if final == "freeze":
            d.freeze()
        elif final == "optimize":
            d.optimize()
    except Exception as e:
        if len(fails) < 4:
            fails.append({"model": model0, "detail": f"history {hist} fed through {ops} (after each: {between}; finally {final or 'nothing'}) raised {type(e).__name__}: {e}"})
        return 1
    for step, left, before in watch:
        now = [sorted(left.render_pkg(p_, pre_)) for p_ in _pkgs() for pre_ in ((), ("x", "X_a"))]
        if now != before and len(fails) < 4:
            fails.append({"model": dict(model0, original_left_behind_at_step=step),
                          "detail": f"history {hist} fed through {ops} (after each: {between}): the dict that was cloned at step {step} and not touched since renders {now} now, it rendered {before} when it was cloned"})
    n = 0
    for pkg in pkgs:
        for pre in ((), ("x", "X_a")):
            n += 1
            got, want = d.render_pkg(pkg, pre), ref_render(hist, pkg, pre)
            if got != want and len(fails) < 4:
                fails.append({"model": {"history": [list(map(str, h)) for h in hist], "operations": list(ops), "between": list(between), "final": final,
                                        "package": str(pkg.cpvstr), "pre_defaults": list(pre)},
                              "detail": f"history {hist} fed through {ops} (after each: {between}; finally {final or 'nothing'}) renders {sorted(got)} for {pkg.cpvstr} "
                                        f"with defaults {list(pre)}; applying the entries in order gives {sorted(want)}"})
    return n


def enum_chunked(seed):
    """incremental_chunked itself against the step function, flags chosen to separate near-miss prefix rules and orderings"""
    from pkgcore.ebuild.misc import incremental_chunked, chunked_data
    U = ["x", "X_a", "Xy", "X_", "ab*"]
    N = U + ["*", "X_*", "x_*", "_*"]
    chunks = []
    for a in range(3):
        for neg in itertools.combinations(N, a):
            for b in range(3):
                for pos in itertools.combinations(U, b):
                    chunks.append(chunked_data(None, neg, pos))
    fails, cases = [], 0
    pres = [(), ("x", "Xy"), ("X_a", "X_", "ab*"), tuple(U)]
    for c in chunks:
        for pre in pres:
            cases += 1
            s = set(pre)
            incremental_chunked(s, [c])
            want = ref_step(pre, c.neg, c.pos)
            if s != want and len(fails) < 4:
                fails.append({"model": {"orig": list(pre), "neg": list(c.neg), "pos": list(c.pos)},
                              "detail": f"incremental_chunked({set(pre)}, [neg={c.neg} pos={c.pos}]) gives {sorted(s)}, the step function gives {sorted(want)}"})
    r = random.Random(seed)
    for _ in range(3000):
        seq = [r.choice(chunks) for _ in range(r.choice((2, 3)))]
        pre = r.choice(pres)
        cases += 1
        s = set(pre)
        incremental_chunked(s, iter(seq))
        want = set(pre)
        for c in seq:
            want = ref_step(want, c.neg, c.pos)
        if s != want and len(fails) < 4:
            fails.append({"model": {"orig": list(pre), "chunks": [[list(c.neg), list(c.pos)] for c in seq]},
                          "detail": f"incremental_chunked({set(pre)}, {[(c.neg, c.pos) for c in seq]}) gives {sorted(s)}, folding the step function gives {sorted(want)}"})
    return {"name": "C11.incremental_chunked.bounded_enumeration",
            "bound": f"every single chunk with <= 2 negations out of {N} and <= 2 additions out of {U} on 4 start sets, plus 3000 seeded sequences of 2..3 such chunks",
            "cases": cases, "failures": fails}


def entries():
    out = []
    for k in KEYS:
        for neg in ((), ("x",), ("*",), ("X_*",), ("X_a", "y"), ("*", "y")):
            for pos in ((), ("x",), ("X_a",), ("y", "X_b")):
                if (neg or pos) and not set(neg) & set(pos):
                    out.append((k, neg, pos))
    return out


def enum_histories(seed):
    import os
    thorough = os.environ.get("VERIF_TIER") == "thorough"
    pkgs = _pkgs()
    fails, cases = [], 0
    E = entries()
    small = [e for e in E if len(e[1]) + len(e[2]) <= 2]
    # exhaustive: every history of <= 2 entries (all entries) under every operation choice; every history of 3 small entries under a rotating choice
    for n in (1, 2):
        for hist in itertools.product(E if (thorough or n == 1) else small, repeat=n):
            for ops in itertools.product(("bare", "stream", "merge1", "merge_frozen"), repeat=n):
                for btw in (("",), ("clone",), ("freeze_thaw",), ("optimize",)):
                    cases += _check(list(hist), ops, btw, pkgs, fails)
    r = random.Random(seed)
    rounds = 60000 if thorough else 12000
    for _ in range(rounds):
        hist = [r.choice(E) for _ in range(r.choice((3, 3, 4, 4, 5, 6)))]
        ops = tuple(r.choice(OPS) for _ in range(len(hist)))
        btw = tuple(r.choice(BETWEEN) for _ in range(len(hist)))
        cases += _check(hist, ops, btw, pkgs, fails, final=r.choice(("", "freeze", "optimize")))
    return {"name": "C11.ChunkedDataDict.render_pkg.bounded_enumeration",
            "bound": f"every history of <= 2 entries out of {len(E) if thorough else len(small)} (4 keys incl. global, negations incl. -* and -X_*) under 4 feeding operations x 4 interleaved "
                     f"clone/freeze/optimize choices, plus {rounds} seeded random histories of 3..6 entries with random operations (merge of 1 or 2 entries, frozen or not), "
                     "rendered for 3 packages x 2 default sets and compared with the in-order fold",
            "cases": cases, "failures": fails}


# ---------------------------------------------------------------- package.use lines through the real domain code ----
LINE_TOKENS = ["a", "-a", "b", "-*", "X:", "Y:", "p", "-p", "x_p", "-x_p", "xq", "-xq"]  # a written-out -x_* is not a valid token (the line is rejected); X: -* is the spelling
LINE_HEADS = ["*/*", "a/b", "=a/b-2"]


def ref_line(s, tokens):
    """a configuration line read token by token, in the order written (the statement's rule applied at token granularity)"""
    s = set(s)
    prefix = None
    for t in tokens:
        if t.endswith(":"):
            prefix = t[:-1].lower() + "_"
            continue
        if prefix is None:
            if t == "-*":
                s.clear()
            elif t.startswith("-") and t.endswith("_*"):
                s = {f for f in s if not f.startswith(t[1:-1])}
            elif t.startswith("-"):
                s.discard(t[1:])
            else:
                s.add(t)
        else:
            if t == "-*":
                s = {f for f in s if not f.startswith(prefix)}
            elif t.startswith("-"):
                s.discard(prefix + t[1:])
            else:
                s.add(prefix + t)
    return s


def _expanded(tokens):
    prefix, out = None, []
    for t in tokens:
        if t.endswith(":"):
            prefix = t[:-1].lower() + "_"
        elif prefix is None:
            out.append(t)
        elif t == "-*":
            out.append(f"-{prefix}*")
        else:
            out.append(("-" + prefix + t[1:]) if t.startswith("-") else prefix + t)
    return out


def order_matters_within_line(tokens):
    """a later token of the same line undoes an earlier one other than through -* / 'FOO: ... -*' (which the splitter handles):
    the same flag with both polarities, or a written-out -foo_* after a foo_ flag it covers"""
    e = _expanded(tokens)
    for i, t in enumerate(e):
        for u in e[i + 1:]:
            if t.lstrip("-") == u.lstrip("-") and t.startswith("-") != u.startswith("-") and not t.endswith("*"):
                return True
            if not t.startswith("-") and u.startswith("-") and u.endswith("_*") and t.startswith(u[1:-1]):
                return True
    return False


def enum_lines(seed):
    """package.use lines -> package_use_splitter -> domain.pkg_use -> domain.enabled_use -> pull_data, all real code, against token-by-token reading"""
    import os
    import shutil
    import tempfile
    import types
    from pkgcore.ebuild.domain import domain
    from pkgcore.ebuild.misc import ChunkedDataDict, chunked_data
    from pkgcore.ebuild.atom import atom
    thorough = os.environ.get("VERIF_TIER") == "thorough"
    pkgs = _pkgs()
    f_pkg_use, f_enabled = domain.__dict__["pkg_use"].function, domain.__dict__["enabled_use"].function
    scratch = tempfile.mkdtemp(prefix="c11-", dir=os.environ.get("PYVC_SCRATCH", "/var/tmp"))
    fails, cases = [], 0
    profile = ChunkedDataDict()
    profile.add_bare_global((), ("x_p", "y_p"))
    profile.update_from_stream([chunked_data(atom("a/b"), ("b",), ("p",))])
    profile.freeze()
    prof_hist = [(None, (), ("x_p", "y_p")), ("a/b", ("b",), ("p",))]
    glob = ("a", "b", "xq", "-p")

    def run(lines):
        nonlocal cases
        with open(os.path.join(scratch, "package.use"), "w") as f:
            f.write("".join(" ".join([h] + list(t)) + "\n" for h, t in lines))
        o = types.SimpleNamespace(config_dir=scratch, root="/", use=glob, profile=types.SimpleNamespace(pkg_use=profile))
        o.pkg_use = f_pkg_use(o)
        use = f_enabled(o)
        for pkg in pkgs:
            cases += 1
            got = set(use.pull_data(pkg))
            want = ref_line(set(), glob)
            for k, neg, pos in prof_hist:
                if k is None or atom(k).match(pkg):
                    want = ref_step(want, neg, pos)
            for h, t in lines:
                if h == "*/*" or atom(h).match(pkg):
                    want = ref_line(want, t)
            listed_kind = any(order_matters_within_line(t) for h, t in lines)
            if got != want and sum(1 for f in fails if f["model"]["order_matters_within_a_line"] == listed_kind) < 3:
                fails.append({"model": {"package.use": [" ".join([h] + list(t)) for h, t in lines], "package": pkg.cpvstr, "global_USE": list(glob),
                                        "order_matters_within_a_line": any(order_matters_within_line(t) for h, t in lines)},
                              "detail": f"package.use {[' '.join([h] + list(t)) for h, t in lines]} on top of USE={' '.join(glob)} and the profile gives {sorted(got)} for {pkg.cpvstr}; "
                                        f"reading the entries token by token in order gives {sorted(want)}"})
    try:
        for n in (1, 2, 3):
            for t in itertools.product(LINE_TOKENS, repeat=n):
                for h in (LINE_HEADS if n < 3 or thorough else LINE_HEADS[:2]):
                    run([(h, t)])
        r = random.Random(seed)
        for _ in range(6000 if thorough else 1500):
            lines = [(r.choice(LINE_HEADS), tuple(r.choice(LINE_TOKENS) for _ in range(r.choice((1, 2, 3, 4, 5))))) for _ in range(r.choice((2, 3)))]
            run(lines)
    finally:
        shutil.rmtree(scratch, ignore_errors=True)
    # keep one representative per kind so that an unlisted failure is never crowded out by listed ones
    listed = [f for f in fails if f["model"]["order_matters_within_a_line"]]
    other = [f for f in fails if not f["model"]["order_matters_within_a_line"]]
    return {"name": "C11.package_use_lines.bounded_enumeration",
            "bound": f"every package.use line of 1..3 tokens out of {LINE_TOKENS} for {len(LINE_HEADS)} targets, plus {6000 if thorough else 1500} seeded files of 2..3 lines of 1..5 tokens, "
                     "read by the real package_use_splitter / domain.pkg_use / domain.enabled_use on top of a global USE and a two-entry profile, pulled for 3 packages",
            "cases": cases, "failures": other[:3] + listed[:1]}


WITNESSES = {"order_matters_within_a_line": lambda m: bool(m.get("order_matters_within_a_line"))}


def tasks():
    return [
        Task("C11.incremental_chunked", t_chunked, [(FILE, "incremental_chunked")], fallback={"unroll": 2}, enumerate=enum_chunked),
        Task("C11.step", t_step_meaning, []),
        Task("C11.ChunkedDataDict", None, [(FILE, "ChunkedDataDict.render_pkg"), (FILE, "_build_cp_atom_payload")], enumerate=enum_histories),
        Task("C11.package_use_lines", None, [("src/pkgcore/ebuild/domain.py", "package_use_splitter"), ("src/pkgcore/ebuild/domain.py", "domain.pkg_use"),
                                             ("src/pkgcore/ebuild/domain.py", "domain.enabled_use")], enumerate=enum_lines),
    ]


REPLAY = {}
