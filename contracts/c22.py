"""C22 -- contents sets behave like path-keyed maps (DESIGN.md section 4, C22)."""
import itertools
import os
import z3
from pyvc.api import Task, call, Interp
from pyvc.interp import PyRaise
from pyvc.models import Model, ModelHost, _raise
from pyvc import models, theory
from pyvc.sym import (KStr, KRef, KSet, SBool, SStr, SRef, SObj, And, Or, Not, Implies, OutOfSubset, fresh_name)

PROPERTY = "C22"
FILE = "src/pkgcore/fs/contents.py"
Ent = KRef("FsEntry")
STR = z3.StringSort()

MANIFEST = {
    "text": "Unbounded proof, against the abstract view `map: normalized path -> entry` of an arbitrary contents set, that add, "
            "__delitem__/remove, discard, __getitem__ and __contains__ perform exactly the corresponding map operation on the key "
            "entry.location resp. normpath(path) -- for an entry argument and for an arbitrary (unnormalized) path string -- raise "
            "KeyError exactly when the key is absent, refuse (AttributeError) on a frozen set, and leave every other key untouched.  "
            "The set algebra (union, intersection, difference, symmetric difference, subset/superset/disjoint, *_update), "
            "relocation and add_missing_directories are a bounded stand-in: exhaustive native comparison with a dict model over "
            "small universes with unnormalized spellings and all three argument kinds.",
    "note": "Trusted: os.path.normpath is an idempotent function; every entry's location is normalized (fsBase.__init__); dict "
            "semantics of _dict; pyvc encoder.",
}
ASSUMPTIONS = ["normpath(normpath(p)) == normpath(p); an fs entry's location is already normalized",
               "the backing dict is an arbitrary finite map from location strings to entries"]


class DictView(ModelHost):
    """self._dict as (domain set, value array) with symbolic keys"""

    def __init__(self, name):
        self.dom = z3.Const(fresh_name(name + "_dom"), z3.SetSort(STR))
        self.val = z3.Const(fresh_name(name + "_val"), z3.ArraySort(STR, Ent.sort))
        self.dom0, self.val0 = self.dom, self.val

    def has(self, k):
        return SBool(z3.IsMember(k.t, self.dom))

    def contains(self, it, k):
        return self.has(k)

    def getitem(self, it, k):
        if not it.truth(self.has(k)):
            _raise(KeyError(k))
        return Ent.wrap(self.val[k.t])

    def setitem(self, it, k, v):
        self.dom = z3.SetAdd(self.dom, k.t)
        self.val = z3.Store(self.val, k.t, v.t)

    def delitem(self, it, k):
        if not it.truth(self.has(k)):
            _raise(KeyError(k))
        self.dom = z3.SetDel(self.dom, k.t)

    def getattr(self, it, name):
        if name == "pop":
            def pop(it_, k, *default):
                if it_.truth(self.has(k)):
                    v = Ent.wrap(self.val[k.t])
                    self.dom = z3.SetDel(self.dom, k.t)
                    return v
                if default:
                    return default[0]
                _raise(KeyError(k))
            return Model(pop, "dict.pop")
        if name == "clear":
            return Model(lambda it_: setattr(self, "dom", z3.EmptySet(STR)), "dict.clear")
        raise OutOfSubset(f"dict.{name}")


def setup(ex, label):
    import pkgcore.fs.contents as C
    from pkgcore.fs import fs
    norm = theory.ufun("normpath", STR, STR)
    loc = theory.ufun("entry_location", Ent.sort, STR)

    def norm_model(it, p):
        t = norm(p.t if isinstance(p, SStr) else z3.StringVal(p))
        theory._add_axiom(("norm", t.get_id()), norm(t) == t)
        return SStr(t)

    def loc_attr(it, ref):
        t = loc(ref.t)
        theory._add_axiom(("locnorm", t.get_id()), norm(t) == t)   # type invariant of fsBase
        return SStr(t)
    it = Interp(ex, label=label, models={C.normpath: norm_model})
    it.ref_attrs = {("FsEntry", "location"): loc_attr}
    it.ref_isinstance = lambda it_, v, classes: any(c is fs.fsBase or c is object for c in classes)
    d = DictView("contents")
    mutable = bool(ex.choose(2))
    cs = SObj(C.contentsSet, {"_dict": d, "mutable": mutable})
    arg_is_entry = bool(ex.choose(2))
    if arg_is_entry:
        arg = Ent.fresh("entry")
        key = loc(arg.t)
        ex.assume(SBool(norm(key) == key))
    else:
        arg = KStr.fresh("path")
        key = norm(arg.t)
    ex.inputs.update({"mutable": mutable, "argument_is_entry": arg_is_entry, "path": arg if not arg_is_entry else SStr(key),
                      "present": SBool(z3.IsMember(key, d.dom0))})
    return it, cs, d, arg, key, mutable, arg_is_entry


def frame(d, key):
    """every other key keeps its presence and value"""
    k = z3.Const(fresh_name("k"), STR)
    return SBool(z3.ForAll([k], z3.Implies(k != key, z3.And(z3.IsMember(k, d.dom) == z3.IsMember(k, d.dom0),
                                                          z3.Implies(z3.IsMember(k, d.dom0), d.val[k] == d.val0[k])))))


def t_method(name):
    def run(ex):
        P = f"C22.contentsSet.{name}"
        it, cs, d, arg, key, mutable, is_entry = setup(ex, P)
        present = z3.IsMember(key, d.dom0)
        if name == "add" and not is_entry:
            # add() takes entries only: a path string must be refused
            out = call(it, it.target(FILE, "contentsSet.add"), cs, arg)
            ex.oblige(f"{P}.raises.refuses_a_path_string", out.raised and (out.raised_cls(TypeError) or out.raised_cls(AttributeError)), kind="exceptional-postcondition")
            ex.oblige(f"{P}.frame.refused_add_changes_nothing", SBool(z3.And(d.dom == d.dom0, d.val == d.val0)), kind="frame")
            return
        out = call(it, it.target(FILE, f"contentsSet.{name}"), cs, arg)
        writes = name in ("add", "__delitem__", "remove", "discard")
        if writes and not mutable and name != "discard":
            ex.oblige(f"{P}.raises.frozen_set_refuses", out.raised and out.raised_cls(AttributeError), kind="exceptional-postcondition")
            ex.oblige(f"{P}.frame.frozen_set_unchanged", SBool(z3.And(d.dom == d.dom0, d.val == d.val0)), kind="frame")
            return
        if name == "add":
            ex.oblige(f"{P}.raises.nothing", not out.raised, kind="exceptional-postcondition")
            ex.oblige(f"{P}.ensures.key_maps_to_the_entry", SBool(z3.And(z3.IsMember(key, d.dom), d.val[key] == arg.t)))
            ex.oblige(f"{P}.frame.other_keys_untouched", frame(d, key), kind="frame")
        elif name in ("__delitem__", "remove"):
            if out.raised:
                ex.oblige(f"{P}.raises.keyerror_only_when_absent", And(out.raised_cls(KeyError), SBool(z3.Not(present))), kind="exceptional-postcondition")
                ex.oblige(f"{P}.frame.failed_removal_changes_nothing", SBool(z3.And(d.dom == d.dom0, d.val == d.val0)), kind="frame")
            else:
                ex.oblige(f"{P}.ensures.key_removed_and_was_present", SBool(z3.And(present, z3.Not(z3.IsMember(key, d.dom)))))
                ex.oblige(f"{P}.frame.other_keys_untouched", frame(d, key), kind="frame")
        elif name == "discard":
            ex.oblige(f"{P}.raises.nothing", not out.raised, kind="exceptional-postcondition")
            ex.oblige(f"{P}.ensures.key_absent_afterwards", SBool(z3.Not(z3.IsMember(key, d.dom))))
            ex.oblige(f"{P}.frame.other_keys_untouched", frame(d, key), kind="frame")
        elif name == "__getitem__":
            if out.raised:
                ex.oblige(f"{P}.raises.keyerror_only_when_absent", And(out.raised_cls(KeyError), SBool(z3.Not(present))), kind="exceptional-postcondition")
            else:
                ex.oblige(f"{P}.ensures.returns_the_mapped_entry", And(SBool(present), models.eq(it, out.value, Ent.wrap(d.val0[key]))))
            ex.oblige(f"{P}.frame.lookup_changes_nothing", SBool(z3.And(d.dom == d.dom0, d.val == d.val0)), kind="frame")
        elif name == "__contains__":
            ex.oblige(f"{P}.raises.nothing", not out.raised, kind="exceptional-postcondition")
            if not out.raised:
                r = out.value
                ex.oblige(f"{P}.ensures.true_iff_key_present", SBool((r.t if isinstance(r, SBool) else z3.BoolVal(bool(r))) == present))
            ex.oblige(f"{P}.frame.lookup_changes_nothing", SBool(z3.And(d.dom == d.dom0, d.val == d.val0)), kind="frame")
    return run


# ------------------------------------------------------- bounded stand-in ----
def enum_algebra(seed):
    import random
    from pkgcore.fs import fs
    from pkgcore.fs.contents import contentsSet, OrderedContentsSet
    rnd = random.Random(seed)
    paths = ["/a", "/a/b", "/a/b/c", "/d", "/d/e"]
    spell = lambda p: rnd.choice([p, p + "/", p[:1] + p[1:].replace("/", "//", 1), "/." + p, p + "/."])

    def ent(p, tag):
        k = rnd.choice(("dir", "file", "sym"))
        if k == "dir":
            return fs.fsDir(p, mode=0o700 + tag, uid=tag, gid=tag, mtime=tag, strict=False)
        if k == "file":
            return fs.fsFile(p, mode=0o600 + tag, uid=tag, gid=tag, mtime=tag, strict=False)
        return fs.fsSymlink(p, target="t%d" % tag, mode=0o777, uid=tag, gid=tag, mtime=tag, strict=False)
    cases, fails = 0, []

    def bad(model, detail):
        if len(fails) < 5:
            fails.append({"model": model, "detail": detail})
    norm = os.path.normpath
    for trial in range(300):
        A = {p: ent(p, 1) for p in rnd.sample(paths, rnd.randint(0, 4))}
        Bp = rnd.sample(paths, rnd.randint(0, 4))
        Bents = {p: ent(p, 2) for p in Bp}
        kind = trial % 5
        # arguments that name a path more than once (two spellings of it, the entry twice, an entry and its path) and generators
        dup = [q for p in Bp for q in ((spell(p), spell(p)) if rnd.random() < .6 else (spell(p),))]
        arg = {0: lambda: contentsSet(Bents.values()), 1: lambda: [spell(p) for p in Bp], 2: lambda: list(Bents.values()),
               3: lambda: list(dup), 4: lambda: [x for p in Bp for x in (Bents[p], Bents[p])] if trial % 2 else (y for y in list(Bents.values()))}[kind]
        kname = ("set", "path strings", "entries", "path strings with repeats", "entries twice / a generator")[kind]
        sa, sb = set(A), set(Bp)
        ops = {"difference": sa - sb, "intersection": sa & sb, "union": sa | sb, "symmetric_difference": sa ^ sb}
        for op, want in ops.items():
            if kind in (1, 3) and op in ("union", "symmetric_difference"):
                continue   # these need entries to insert
            cases += 1
            s = contentsSet(A.values())
            try:
                got = {x.location for x in getattr(s, op)(arg())}
            except Exception as e:
                bad({"A": sorted(A), "B": sorted(Bp), "arg": kname, "op": op}, f"{op}({kname} {sorted(Bp)}) on {sorted(A)} raised {e!r}")
                continue
            if got != want:
                bad({"A": sorted(A), "B": sorted(Bp), "arg": kname, "op": op}, f"{op}({kname} {sorted(Bp)}) on {sorted(A)} = {sorted(got)}, map semantics give {sorted(want)}")
            if {x.location for x in s} != sa:
                bad({"A": sorted(A), "op": op}, f"{op} modified its receiver")
            if op in ("difference", "intersection", "symmetric_difference"):
                s2 = contentsSet(A.values())
                try:
                    getattr(s2, op + "_update")(arg())
                    got2 = {x.location for x in s2}
                    if got2 != want:
                        bad({"A": sorted(A), "B": sorted(Bp), "arg": kname, "op": op + "_update"}, f"{op}_update({kname} {sorted(Bp)}) on {sorted(A)} left {sorted(got2)}, expected {sorted(want)}")
                except Exception as e:
                    bad({"A": sorted(A), "B": sorted(Bp), "arg": kname, "op": op + "_update"}, f"{op}_update raised {e!r}")
        s = contentsSet(A.values())
        for pred, want in (("issubset", sa <= sb), ("issuperset", sa >= sb), ("isdisjoint", not (sa & sb))):
            cases += 1
            try:
                got = getattr(s, pred)(arg())
            except Exception as e:
                bad({"A": sorted(A), "B": sorted(Bp), "arg": kname, "op": pred}, f"{pred} raised {e!r}")
                continue
            if bool(got) != want:
                bad({"A": sorted(A), "B": sorted(Bp), "arg": kname, "op": pred}, f"{pred}({kname} {sorted(Bp)}) on {sorted(A)} = {got}, expected {want}")
        # the set itself as the argument of its own operations
        for op, want in (("difference", set()), ("intersection", sa), ("union", sa), ("symmetric_difference", set())):
            for upd in ("", "_update"):
                name = "update" if (op, upd) == ("union", "_update") else op + upd
                cases += 1
                s = contentsSet(A.values())
                try:
                    r = getattr(s, name)(s)
                    got = {x.location for x in (s if upd else r)}
                except Exception as e:
                    bad({"A": sorted(A), "arg": "the set itself", "op": name}, f"s.{name}(s) on {sorted(A)} raised {e!r}")
                    continue
                if got != want:
                    bad({"A": sorted(A), "arg": "the set itself", "op": name}, f"s.{name}(s) on {sorted(A)} gives {sorted(got)}, map semantics give {sorted(want)}")
        # relocation
        cases += 1
        moved = contentsSet(A.values()).change_offset("/", "/new/root")
        want = {norm("/new/root/" + p.lstrip("/")) for p in A}
        if {x.location for x in moved} != want:
            bad({"A": sorted(A)}, f"change_offset('/', '/new/root') gave {sorted(x.location for x in moved)}")
        # ... from a prefix to another one, every spelling of the two offsets; type and attributes of every entry are kept
        # the set also holds the old prefix directory itself (it becomes the new prefix, "/" when relocating to the root)
        moved = contentsSet(list(moved) + [fs.fsDir("/new/root", mode=0o755, uid=0, gid=0, mtime=1, strict=False), fs.fsDir("/new", mode=0o755, uid=0, gid=0, mtime=1, strict=False)])
        for old, new in (("/new/root", "/"), ("/new/root/", "/"), ("/new/root", "/other"), ("/new/root/", "/other/"), ("/new/root", "/other//deep"), ("/new", "/new/root/x"), ("/new", "/")):
            cases += 1
            try:
                back = contentsSet(x for x in moved if x.location == old.rstrip("/") or x.location.startswith(old.rstrip("/") + "/")).change_offset(old, new)
            except Exception as e:
                bad({"A": sorted(A), "old": old, "new": new}, f"change_offset({old!r}, {new!r}) raised {e!r}")
                continue
            o = old.rstrip("/")
            wantb = {"/" + "/".join(c for c in (new + "/" + x.location[len(o):]).split("/") if c): x
                     for x in moved if x.location == o or x.location.startswith(o + "/")}
            gotb = {x.location: x for x in back}
            if set(gotb) != set(wantb):
                bad({"A": sorted(A), "old": old, "new": new}, f"change_offset({old!r}, {new!r}) on {sorted(x.location for x in moved)} gave {sorted(gotb)}, replacing the prefix gives {sorted(wantb)}")
            else:
                for loc, x in gotb.items():
                    y = wantb[loc]
                    if type(x) is not type(y) or any(getattr(x, a_, None) != getattr(y, a_, None) for a_ in ("mode", "uid", "gid", "mtime")):
                        bad({"A": sorted(A), "old": old, "new": new}, f"change_offset({old!r}, {new!r}) changed more than the location of {y!r}: {x!r}")
        # completing missing directories: exactly the absent ancestors, existing entries untouched
        cases += 1
        s = contentsSet(A.values())
        before = {x.location: x for x in s}
        s.add_missing_directories()
        anc = set()
        for p in A:
            q = os.path.dirname(p)
            while q != "/":
                anc.add(q)
                q = os.path.dirname(q)
        after = {x.location: x for x in s}
        if set(after) != set(A) | anc:
            bad({"A": sorted(A)}, f"add_missing_directories on {sorted(A)} gave {sorted(after)}")
        for p, e in before.items():
            if after.get(p) is not e:
                bad({"A": sorted(A), "path": p}, f"add_missing_directories replaced the existing entry {e!r} at {p} by {after.get(p)!r}")
        for p in set(after) - set(before):
            if not after[p].is_dir:
                bad({"A": sorted(A)}, f"added {p} is not a directory")
    return {"name": "C22.set_algebra.bounded_enumeration", "bound": "300 random pairs of sets over 5 nested paths, arguments as set / unnormalized path strings / entry lists; relocation from / to a prefix and from that prefix to 6 other offsets (trailing and doubled slashes, nested); missing-directory completion",
            "cases": cases, "failures": fails}


def tasks():
    ts = [Task(f"C22.contentsSet.{n}", t_method(n), [(FILE, f"contentsSet.{n}")])
          for n in ("add", "__delitem__", "remove", "discard", "__getitem__", "__contains__")]
    ts.append(Task("C22.set_algebra", None, [(FILE, "contentsSet." + n) for n in ("difference", "intersection", "union", "symmetric_difference_update",
                                                                                   "issubset", "issuperset", "isdisjoint", "add_missing_directories", "change_offset")],
                   enumerate=enum_algebra))
    return ts


def replay_method(model):
    from pkgcore.fs import fs
    from pkgcore.fs.contents import contentsSet
    s = contentsSet([fs.fsDir("/a", strict=False), fs.fsDir("/a/b", strict=False)])
    bad = []
    s.discard("/a//b")
    if "/a/b" in s:
        bad.append("discard('/a//b') left /a/b in the set although '/a//b' in s is True")
    t = contentsSet([fs.fsDir("/a", strict=False)])
    try:
        t.remove("/a/")
    except KeyError:
        bad.append("remove('/a/') raised KeyError for a present entry")
    return bool(bad), "; ".join(bad) or "probe operations with unnormalized paths behave like map operations"


REPLAY = {"C22.contentsSet": replay_method}
