"""C31 -- the environment handed to the build daemon arrives exactly (DESIGN.md section 4, C31)."""
import itertools
import os
import random
import subprocess
from pyvc.api import Task, call, Interp
from pyvc.models import Model, ModelHost
from pyvc.sym import SObj, OutOfSubset

PROPERTY = "C31"
PROC = "src/pkgcore/ebuild/processor.py"
LEVEL = "other"
EXPLANATION = ("bounded stand-in only: 'the daemon's shell ends up with exactly those values' is a statement about bash's parser and the read builtin, for which no "
               "specification exists inside the verifier; what is run instead: (1) the announced size of every size-prefixed message against the bytes written to a "
               "recording channel, for samples with multi-byte text, (2) the real quoting helpers on every string over a small alphabet of quote / backslash / dollar / "
               "newline characters, evaluated by a real bash, (3) seeded random environments sent to a real ebuild daemon inline and through the transfer file, read "
               "back from its shell, followed by the next request.")

MANIFEST = {
    "text": "Bounded stand-in: (1) send_env, _ensure_metadata_paths and _run_depend_like_phase on a recording channel announce exactly the "
            "number of bytes that follow the header line, for payloads with multi-byte characters; (2) every string of <= 4 symbols over "
            "{a, space, ', \\, \", $, `, newline, n, e-acute} is quoted by the real _quote_env_value / _quote_array_element, evaluated by "
            "bash and compared; (3) 60 seeded environments (scalars and arrays mixing quotes, backslashes, $, backticks, newlines, tabs, "
            "non-ASCII text; exported and non-exported variables) are sent to one real ebuild daemon, inline and through the transfer "
            "file, re-using one transfer directory, read back from the daemon's shell (value, array-ness, export flag), and the daemon "
            "must answer the next request.",
    "note": "Trusted: bash as the oracle for its own quoting rules; the daemon's protocol loop (ebuild-daemon.bash).",
}
ASSUMPTIONS = ["variable names are valid shell names; values hold no NUL"]


def t_sizes(ex):
    """size-prefixed messages: the announced size is the byte length of what follows"""
    import pkgcore.ebuild.processor as Pm
    which = ("send_env", "_ensure_metadata_paths", "_run_depend_like_phase")[ex.choose(3)]
    sample = ("plain ascii", "café 日本語", "€'\\x")[ex.choose(3)]
    P = f"C31.{which}[{sample!r}]"
    it = Interp(ex, label=P)
    sent = []

    class W(ModelHost):
        encoding = "utf-8"

        def getattr(self, it_, name):
            if name == "encoding":
                return "utf-8"
            raise OutOfSubset(name)
    me = SObj(Pm.EbuildProcessor, {"ebd_write": W(), "_readonly_vars": frozenset(), "_metadata_paths": None, "_eclass_caching": False})
    from pyvc.sym import concrete_of
    it.models[Pm.EbuildProcessor.write] = lambda it_, self_, s, **k: sent.append(s if isinstance(s, str) else str(concrete_of(s)))
    it.models[Pm.EbuildProcessor.expect] = lambda it_, self_, *a, **k: True
    it.models[Pm.EbuildProcessor.generic_handler] = lambda it_, self_, **k: None
    it.models[Pm.expected_ebuild_env] = lambda it_, pkg, env=None, depends=False: {"VAL": sample}
    if which == "send_env":
        out = call(it, it.target(PROC, "EbuildProcessor.send_env"), me, {"VAL": sample, "ARR": [sample, "x"]})
    elif which == "_ensure_metadata_paths":
        out = call(it, it.target(PROC, "EbuildProcessor._ensure_metadata_paths"), me, ("/tmp/" + sample,))
    else:
        out = call(it, it.target(PROC, "EbuildProcessor._run_depend_like_phase"), me, "gen_metadata", "PKG", "ECLASSES")
    ex.oblige(f"{P}.raises.nothing", not out.raised, kind="exceptional-postcondition")
    if out.raised:
        return
    msg = next((m for m in sent if "\n" in m), None)
    ok = False
    if msg is not None:
        head, payload = msg.split("\n", 1)
        try:
            ok = int(head.split()[-1]) == len(payload.encode("utf-8"))
        except ValueError:
            ok = False
    ex.oblige(f"{P}.ensures.announced_size_is_the_number_of_bytes_that_follow", ok, note=f"messages: {[m[:60] for m in sent]}")


# ------------------------------------------------------------------ bounded stand-ins ----
def enum_quoting(seed):
    from pkgcore.ebuild.processor import EbuildProcessor as EP
    fails, cases = [], 0
    alpha = ["a", " ", "'", "\\", '"', "$", "`", "\n", "n", "é"]
    strings = ["".join(t) for n in range(0, 5) for t in itertools.product(alpha, repeat=n)]
    if len(strings) > 4000:
        rnd = random.Random(seed)
        strings = [s for s in strings if len(s) <= 3] + rnd.sample([s for s in strings if len(s) == 4], 2500)
    quoters = [("_quote_env_value", getattr(EP, "_quote_env_value", None)), ("_quote_array_element", getattr(EP, "_quote_array_element", None))]
    for qname, q in quoters:
        if q is None:
            continue
        # one bash per batch: assign each quoted value and print it NUL separated
        for i in range(0, len(strings), 400):
            batch = strings[i:i + 400]
            script = "".join((f"v={q(s)}\n" if qname == "_quote_env_value" else f"v=([0]={q(s)})\n") + 'printf "%s\\0" "${v[0]}"\n' for s in batch)
            r = subprocess.run(["bash", "--norc", "-c", script], capture_output=True)
            got = r.stdout.decode("utf-8", "surrogateescape").split("\0")[:-1]
            cases += len(batch)
            if len(got) != len(batch):
                fails.append({"model": {"quoter": qname}, "detail": f"{qname}: bash printed {len(got)} values for {len(batch)} assignments (stderr {r.stderr[:200]!r})"})
                continue
            for s, g in zip(batch, got):
                if s != g and len(fails) < 5:
                    fails.append({"model": {"quoter": qname, "value": s}, "detail": f"{qname}({s!r}) = {q(s)!r}; bash reads it back as {g!r}"})
    return {"name": "C31.quoting.bounded_enumeration", "bound": f"{len(strings)} strings of <= 4 symbols over {alpha!r} through the real scalar and array-element quoting helpers, evaluated by bash", "cases": cases, "failures": fails}


def enum_env_str(seed):
    """_generate_env_str as a whole (which values go bare, how assignments are grouped into the plain line and the export line): the text it
    produces for small environments is evaluated by bash and every variable's value and export flag read back"""
    from pkgcore.ebuild.processor import EbuildProcessor as EP
    rnd = random.Random(seed + 31)
    me = object.__new__(EP)
    me._readonly_vars = frozenset(("BASH_VERSINFO", "UID"))
    alpha = ["a", "Z", "0", "_", " ", "'", "\n", "é", "١", "$", "-"]
    values = ["".join(t) for n in range(0, 4) for t in itertools.product(alpha, repeat=n)]
    values += [w + "\n" for w in ("v1", "A_b", "x" * 9, "0")] + ["\n" + "v1", "v1\n\n", "a\nb"]
    rnd.shuffle(values)
    fails, cases = [], 0
    names = ["A", "M", "N", "Z", "_u", "b9", "AM", "Nb9", "_uZ"]
    for i in range(0, len(values), 4):
        chunk = values[i:i + 4]
        if rnd.random() < .15:
            chunk = chunk[:-1] + [[rnd.choice(values), rnd.choice(values)]]
        ks = rnd.sample(names, len(chunk))
        nonexp = frozenset(k for k in ks if rnd.random() < .3)
        if i % 20 == 0:
            # whatever the seed: a marked name that contains unmarked ones (PVR / PV, DEPEND / D): the marker lists names, it is not searched as text
            ks = ["AM", "A", "M", "b9"][:len(chunk)]
            nonexp = frozenset(("AM",) if i % 40 else ("AM", "b9"))
        env = dict(zip(ks, chunk))
        if nonexp:
            env["PKGCORE_NONEXPORTED_VARS"] = " ".join(sorted(nonexp))
        env["UID"] = "12"   # read-only in the daemon: must be left out
        cases += 1
        given = {k: (list(v) if isinstance(v, list) else v) for k, v in env.items()}
        try:
            text = me._generate_env_str(env)
            again = me._generate_env_str(env)     # a build hands the same mapping over for every phase
        except Exception as e:
            if len(fails) < 5:
                fails.append({"model": {"env": given}, "detail": f"_generate_env_str({given!r}) raised {type(e).__name__}: {e}"})
            continue
        if env != given or again != text:
            if len(fails) < 5:
                fails.append({"model": {"env": given}, "detail": f"_generate_env_str({given!r}): " + (f"the caller's mapping was changed to {env!r}" if env != given else "") +
                              (f" the same mapping sent a second time gives another text: {again!r} after {text!r}" if again != text else "")})
            env = dict(given)
        script = "unset " + " ".join(names) + "\n" + text + "\n" + "".join(f'printf "%s\\0" "{n}" "${{{n}@a}}" "${{#{n}[@]}}" "${{{n}[@]}}"\n' for n in ks)
        r = subprocess.run(["bash", "--norc", "-c", script], capture_output=True)
        fields = r.stdout.decode("utf-8", "surrogateescape").split("\0")
        seen, j = {}, 0
        try:
            while j < len(fields) - 1:
                n, attrs, cnt = fields[j], fields[j + 1], int(fields[j + 2])
                seen[n] = (attrs, fields[j + 3:j + 3 + cnt])
                j += 3 + cnt
        except (ValueError, IndexError):
            seen = {}
        probs = []
        if r.returncode != 0 or r.stderr:
            probs.append(f"bash: exit {r.returncode}, stderr {r.stderr[:120]!r}")
        for n in ks:
            want = list(env[n]) if isinstance(env[n], list) else [env[n]]
            attrs, got = seen.get(n, ("<missing>", None))
            if got != want:
                probs.append(f"{n}: given {want!r}, bash has {got!r}")
            elif ("x" in attrs) != (n not in nonexp):
                probs.append(f"{n}: export flag wrong ({attrs!r}; non-exported: {sorted(nonexp)})")
        if probs and len(fails) < 5:
            fails.append({"model": {"env": env}, "detail": f"_generate_env_str({env!r}) = {text!r}: " + "; ".join(probs[:3])})
    return {"name": "C31.env_str.bounded_enumeration", "bound": f"{cases} environments of <= 4 variables whose values are all strings of <= 3 symbols over {alpha!r} plus words with newlines before / after, some arrays, "
            "some variables non-exported, one read-only name; the generated text evaluated by bash, values and export flags read back", "cases": cases, "failures": fails}


def enum_daemon(seed):
    import shutil
    import signal
    import tempfile
    from pkgcore.ebuild import processor
    fails, cases = [], 0
    rnd = random.Random(seed)
    CH = "abcXYZ019 _-=:/.,;()[]{}<>|&!?*#~%^@+" + "\"$`\n\t'\\" + "éüß日本€"

    def rand_text():
        return "".join(rnd.choice(CH) for _ in range(rnd.choice((0, 1, 2, 5, 12, 40, 120))))

    def rand_env():
        env = {}
        for i in range(rnd.randint(1, 8)):
            name = rnd.choice(("T_", "_t", "Tv")) + f"{i}_" + rnd.choice(("A", "b", "C9"))
            env[name] = [rand_text() for _ in range(rnd.randint(1, 4))] if rnd.random() < .25 else rand_text()
        nonexp = [k for k in env if rnd.random() < .25]
        if nonexp:
            env["PKGCORE_NONEXPORTED_VARS"] = " ".join(nonexp)
        return env, frozenset(nonexp)
    workdir = tempfile.mkdtemp(prefix="c31.", dir=os.environ.get("PYVC_SCRATCH", "/var/tmp"))
    tdir = os.path.join(workdir, "T")
    os.makedirs(tdir)
    on_alarm = lambda *a: (_ for _ in ()).throw(TimeoutError("daemon did not answer"))
    old_alarm = signal.signal(signal.SIGALRM, on_alarm)
    ebp = None
    try:
        ebp = processor.request_ebuild_processor()
        for round_ in range(60):
            via_file = rnd.random() < .5
            env, nonexp = rand_env()
            names = [k for k in env if k != "PKGCORE_NONEXPORTED_VARS"]
            cases += 1
            model = {"round": round_, "transfer": "file" if via_file else "inline", "env": {k: v for k, v in env.items()}}
            signal.signal(signal.SIGALRM, on_alarm)      # (the processor's own timed reads put the default handler back)
            signal.alarm(60)
            try:
                ebp.write("process_ebuild setup")
                if not ebp.send_env(env, tmpdir=tdir if via_file else None):
                    fails.append({"model": model, "detail": f"round {round_} ({model['transfer']}): the daemon did not acknowledge the environment"})
                    break
                out, script = os.path.join(workdir, "dump.out"), os.path.join(workdir, "dump.sh")
                with open(script, "w") as f:
                    f.write("{\n" + "".join(f'printf "%s\\0" "{n}" "${{{n}@a}}" "${{#{n}[@]}}" "${{{n}[@]}}"\n' for n in names) + "} > '%s'\n" % out)
                ebp.write(f"start_receiving_env file {script}")
                if not ebp.expect("env_received"):
                    fails.append({"model": model, "detail": f"round {round_}: the daemon did not run the read-back request"})
                    break
                fields = open(out, "rb").read().decode("utf-8", "surrogateescape").split("\0")
                seen, i = {}, 0
                while i < len(fields) - 1:
                    n, attrs, cnt = fields[i], fields[i + 1], int(fields[i + 2])
                    seen[n] = (attrs, fields[i + 3:i + 3 + cnt])
                    i += 3 + cnt
                probs = []
                for n in names:
                    want = list(env[n]) if isinstance(env[n], (list, tuple)) else [env[n]]
                    attrs, got = seen.get(n, ("<missing>", None))
                    if got != want:
                        probs.append(f"{n}: sent {want!r}, the daemon has {got!r}")
                    elif ("x" in attrs) != (n not in nonexp):
                        probs.append(f"{n}: export flag wrong ({attrs!r})")
                    elif ("a" in attrs) != isinstance(env[n], (list, tuple)):
                        probs.append(f"{n}: array flag wrong ({attrs!r})")
                ebp.write("shutdown_daemon")
                reply = ebp.read().strip()
                if reply != "phases succeeded":
                    probs.append(f"after the transfer the daemon answered {reply!r} to the next request")
                if not ebp.is_responsive:
                    probs.append("the daemon does not answer any more")
                if probs:
                    fails.append({"model": model, "detail": f"round {round_} ({model['transfer']} transfer): " + "; ".join(probs[:3])})
                    if len(fails) >= 4 or not ebp.is_responsive:
                        break
            except Exception as e:
                fails.append({"model": model, "detail": f"round {round_} ({model['transfer']} transfer): {type(e).__name__}: {e}"})
                break
            finally:
                signal.alarm(0)
        # an environment that changes the locale of the daemon's shell (an ebuild environment carries LC_* / LANG like any other variable),
        # followed in the same session by an inline transfer with multi-byte characters: the announced size counts bytes whatever the locale
        for loc_var, loc_val in (("LC_ALL", "C.UTF-8"), ("LC_CTYPE", "C.UTF-8"), ("LANG", "C.UTF-8")):
            if fails or ebp is None or not ebp.is_responsive:
                break
            cases += 1
            model = {"first_transfer": {loc_var: loc_val}, "second_transfer": {"T_word": "caf\u00e9 \u65e5\u672c\u8a9e"}, "transfer": "inline, twice in one session"}
            signal.signal(signal.SIGALRM, on_alarm)
            signal.alarm(30)
            try:
                ebp.write("process_ebuild setup")
                ok1 = ebp.send_env({loc_var: loc_val, "T_plain": "x"})
                ok2 = ok1 and ebp.send_env({"T_word": "caf\u00e9 \u65e5\u672c\u8a9e", "T_tail": "z"})
                if not (ok1 and ok2):
                    fails.append({"model": model, "detail": f"{loc_var}={loc_val} sent, then an inline environment with multi-byte characters: the daemon did not acknowledge the {'first' if not ok1 else 'second'} transfer"})
                    break
                ebp.write("shutdown_daemon")
                reply = ebp.read().strip()
                if reply != "phases succeeded":
                    fails.append({"model": model, "detail": f"{loc_var}={loc_val} sent, then an inline environment with multi-byte characters: the daemon answered {reply!r} to the next request"})
                    break
            except Exception as e:
                fails.append({"model": model, "detail": f"{loc_var}={loc_val} sent, then an inline environment with multi-byte characters in the same session: {type(e).__name__}: {e}"})
                break
            finally:
                signal.alarm(0)
    finally:
        signal.signal(signal.SIGALRM, old_alarm)
        try:
            if ebp is not None:
                ebp.shutdown_processor(force=True)
        except Exception:
            pass
        shutil.rmtree(workdir, ignore_errors=True)
    return {"name": "C31.daemon_round_trips.bounded_enumeration", "bound": "60 seeded environments (1..8 variables, scalars and arrays of 0..120 characters over letters, shell metacharacters, quotes, backslashes, newlines, tabs and non-ASCII text; "
            "a quarter non-exported) sent to one real ebuild daemon, inline or through one re-used transfer file, read back from its shell; the daemon must answer the next request", "cases": cases, "failures": fails}


def tasks():
    return [
        Task("C31.sizes", t_sizes, [(PROC, "EbuildProcessor.send_env"), (PROC, "EbuildProcessor._ensure_metadata_paths"), (PROC, "EbuildProcessor._run_depend_like_phase"), (PROC, "EbuildProcessor._generate_env_str")],
             bounded={"payloads": 3, "note": "ascii, multi-byte, mixed"}, enumerate=enum_quoting),
        Task("C31.env_str", None, [(PROC, "EbuildProcessor._generate_env_str"), (PROC, "EbuildProcessor._quote_env_value"), (PROC, "EbuildProcessor._quote_array_element")], enumerate=enum_env_str),
        Task("C31.daemon", None, [(PROC, "EbuildProcessor.send_env"), (PROC, "EbuildProcessor._generate_env_str")], enumerate=enum_daemon),
    ]


REPLAY = {}
