#!/bin/bash
# Build the overlay interpreter /verif/.venv312 (python 3.12 + z3/cvc5 wheels + /venv site-packages), offline.
set -e
cd "$(dirname "$0")"
V=.venv312
if [ ! -x $V/bin/python ] || ! $V/bin/python -c 'import z3, cvc5, jsonschema, pkgcore, snakeoil' 2>/dev/null; then
  rm -rf $V
  /venv/bin/python -m venv $V
  PIP_NO_INDEX=1 $V/bin/pip install -q --no-index --find-links /opt/veriftools/wheels z3-solver cvc5 jsonschema crosshair-tool deal icontract >/dev/null
  SP=$($V/bin/python -c 'import sysconfig;print(sysconfig.get_paths()["purelib"])')
  echo "import site; site.addsitedir('/venv/lib/python3.12/site-packages')" > $SP/zz_venv_overlay.pth
fi
$V/bin/python -c 'import z3, cvc5, jsonschema, pkgcore, snakeoil; print("setup ok: z3", z3.get_version_string(), "pkgcore", pkgcore.__file__)'
