#!/bin/bash
# run every registered quick check on the current tree; summary line per property
cd /verif
for P in $(python3 -c "import json;print(' '.join(c['property_id'] for c in json.load(open('MANIFEST.json'))['checks']))"); do
  ./check $P --tier ${1:-quick} 2>/dev/null | grep -E "^(VIOLATION|UNDECIDED|CHECKER|KNOWN|$P:)" | cut -c1-220
done
