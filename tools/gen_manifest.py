#!/usr/bin/env python3
"""Regenerates /verif/MANIFEST.json from the contract modules (contracts/cNN.py: MANIFEST dict)
and the not-applicable table below."""
import importlib
import json
import os
import sys

ROOT = os.path.dirname(os.path.dirname(os.path.abspath(__file__)))
sys.path.insert(0, ROOT)

NOT_APPLICABLE = {
    "C34": "saved-environment filtering is a 450-line hand-written scanner whose oracle is bash's own parser; no contract within reach can state its postcondition (DESIGN 4/C34)",
    "C35": "quantifies over interleavings of two processes, one of them bash; the technique family has no concurrency support and half the system is not Python (DESIGN 4/C35)",
    "C49": "the accumulating code (inherit / __load_ebuild) is bash, not Python (DESIGN 4/C49)",
}
NOT_BUILT = "no contract check has been built for this property yet; not claimed (DESIGN 5)"


def main():
    props = [json.loads(l)["id"] for l in open(os.path.join(ROOT, "properties.jsonl"))]
    checks, na = [], []
    for pid in props:
        path = os.path.join(ROOT, "contracts", pid.lower() + ".py")
        if pid in NOT_APPLICABLE:
            na.append({"property_id": pid, "reason": NOT_APPLICABLE[pid]})
            continue
        if not os.path.exists(path):
            na.append({"property_id": pid, "reason": NOT_BUILT})
            continue
        mod = importlib.import_module("contracts." + pid.lower())
        m = getattr(mod, "MANIFEST", None)
        if m is None:
            na.append({"property_id": pid, "reason": NOT_BUILT})
            continue
        checks.append({
            "property_id": pid,
            "quick_cmd": f"./check {pid} --tier quick",
            "thorough_cmd": f"./check {pid} --tier thorough",
            "evidence_file": f"evidence/{pid}.json",
            "replay_cmd_template": f"./check {pid} --replay {{path}}",
            "engine": "pyvc",
            "level_claimed": {"category": m.get("category", getattr(mod, "LEVEL", "proof")), "text": m["text"], "design_ref": f"DESIGN.md section 4, {pid}"},
            "level_note": m["note"],
            "technique": m.get("technique", "contract-based deductive verification: VCs generated from the extracted Python AST (pyvc), discharged by z3 / cvc5"
                               if getattr(mod, "LEVEL", "proof") == "proof" else
                               "bounded stand-in, not a proof: the real functions are run on an exhaustively / seed-enumerated bounded input space against an executable reference "
                               "(plus, where listed in the level text, contract obligations generated from the extracted AST by pyvc for the narrow part that is within reach)"),
        })
    man = {
        "version": 1,
        "setup_cmd": "./setup.sh",
        "hooks": {"guard": "PKGCORE_VERIF", "enable": "no hooks: contracts are sidecar files under /verif/contracts, the repository is not instrumented",
                  "baseline_off_cmd": "cd /repo && /venv/bin/python -m pytest -ra -q -p no:cacheprovider --timeout=900 --continue-on-collection-errors",
                  "source_commits": [], "add_only": True},
        "engines": [{"name": "pyvc", "path": "pyvc/", "serves_properties": [c["property_id"] for c in checks],
                     "kind_free_text": "own AST->VC generator (symbolic execution with loop invariants and callee contracts) over the functions re-extracted from /repo on every run; z3 5.1 in-process, cvc5 CLI as second opinion; bounded stand-ins labelled as such"}],
        "checks": checks,
        "not_applicable": na,
        "notes": "Exit codes of ./check: 0 held, 1 violation (VIOLATION line), 2 undecided/out-of-subset, 3 checker error. Known findings: known_findings.json (findings + 'fixed:' records). "
                 "./check selftest differential-tests the engine's models against CPython and runs contract probes (not a property check). ./check Cnn --replay <file> re-runs a recorded violation. "
                 "Seeded changes and what the checks report for them: seeded/*/detection.json (tools/run_all_seeds.py); DESIGN.md section 8 records levels, defects, false alarms and seeds.",
    }
    with open(os.path.join(ROOT, "MANIFEST.json"), "w") as f:
        json.dump(man, f, indent=1)
    print(f"MANIFEST: {len(checks)} checks, {len(na)} not applicable")


if __name__ == "__main__":
    main()
