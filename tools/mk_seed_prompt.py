#!/usr/bin/env python3
"""tools/mk_seed_prompt.py <PROP> : the brief handed to a fresh sub-agent that is to write one seeded change for <PROP>.
The agent gets the property text, a private worktree (/tmp/wt/<PROP>) and the list of what earlier seeds of that property
already used -- nothing about /verif.  (Development tool; no registered command depends on it.)"""
import json
import os
import sys

ROOT = os.path.dirname(os.path.dirname(os.path.abspath(__file__)))


def earlier(pid):
    out = []
    sd = os.path.join(ROOT, "seeded")
    for n in sorted(os.listdir(sd)):
        if not n.startswith(pid + "-"):
            continue
        try:
            notes = open(os.path.join(sd, n, "SEED_NOTES.md")).read().splitlines()
        except OSError:
            continue
        line = next((l.strip().lstrip("*- ") for l in notes if l.strip().lower().lstrip("*- ").startswith(("file", "`src/", "src/"))), None)
        if line is None:
            line = next((l.strip() for l in notes if "src/pkgcore" in l), n)
        out.append(line[:220])
    return out


def main():
    pid = sys.argv[1]
    d = next(json.loads(l) for l in open(os.path.join(ROOT, "properties.jsonl")) if json.loads(l)["id"] == pid)
    used = "\n".join("  - " + x for x in earlier(pid))
    print(f"""You are helping to evaluate a verification effort by producing a realistic, subtle BUG (a "seeded change") in the Python project pkgcore (a Gentoo package-manager framework).

Your private scratch git worktree of the project is: /tmp/wt/{pid}   (work ONLY there; never touch /repo or /verif, do not read /verif).

The semantic property your change must BREAK:

  id: {d['id']}
  title: {d['title']}
  statement: {d['statement']}
  quantifier: {json.dumps(d['quantifier'])}
  why unit tests cannot settle it: {d['why_tests_cant']}
  anchors (where the behaviour lives): {json.dumps(d['anchors'])}

Earlier seeded changes for this property already used:
{used}
Choose a DIFFERENT function / mechanism / clause of the statement than all of these, and a different kind of triggering input, so that your change is independent of them. Changes in a helper that the anchored functions call (including helpers in other modules of pkgcore) are welcome when the property's behaviour depends on them.
If, while reading the code, you notice a defect that is ALREADY present in the unmodified tree and violates the property, describe it precisely (input, observed, expected) in a section 'Pre-existing defects' of SEED_NOTES.md and in your final message; do not use it as your seed.

What to produce:
1. A small source change under /tmp/wt/{pid}/src/pkgcore/ that breaks the property above while the code still imports and the EXISTING test-suite still passes. It must look like a plausible maintenance edit (refactor, optimisation, off-by-one, dropped case, wrong operator, reordered steps...), not an obvious sabotage, and must NOT be exposed by ordinary use at once: it should need something specific to manifest (an unusual input, a particular multi-step sequence of operations, a crash/fault at a particular point, a particular interleaving, or two cooperating sites that each look fine alone). Prefer changing the functions named in the anchors (or their direct helpers). Do not edit tests.
2. A demonstration: a small standalone script /tmp/wt/{pid}/demo_{pid}.py that exits 0 (prints PASS) on the unmodified code and exits 1 (prints FAIL and what was observed) with your change applied. It must use the real pkgcore code from the worktree.

How to run things (IMPORTANT: the installed 'pkgcore' resolves to /repo/src by default, so always put the worktree first on the path):
  cd /tmp/wt/{pid} && PYTHONPATH=/tmp/wt/{pid}/src /venv/bin/python demo_{pid}.py
  cd /tmp/wt/{pid} && PYTHONPATH=/tmp/wt/{pid}/src /venv/bin/python -m pytest -q -p no:cacheprovider --timeout=900 -x tests/<relevant dirs>     (then the whole suite: tests/ ; 4 tests are known to fail on the unmodified tree already: tests/ebuild/test_eapi.py::TestEAPI::test_system_bash_supports_bundled_eapis, tests/ebuild/test_profiles.py::TestProfileEapiDefault::test_top_level_with_feature, tests/ebuild/test_repository.py::TestSlavedTree::test_license_groups, tests/fs/test_ops.py::TestCopyFile::test_sym_perms — ignore those)
There is no network. Do not install anything.

Verify yourself: (a) demo passes on the clean worktree (to toggle: `git diff -- src > /tmp/wt/{pid}.patch && git checkout -- src` then `git apply /tmp/wt/{pid}.patch`; do NOT use `git stash` — the stash list is shared with other people's worktrees), (b) demo fails with the change, (c) the full existing test suite passes with the change (same 4 known failures only).

Finish by leaving the change applied in the worktree (uncommitted), and writing /tmp/wt/{pid}/SEED_NOTES.md containing: which file/function you changed and why it breaks the property (start the notes with a line 'File: <path>, function <name>'), what specific condition is needed for it to manifest, and the exact commands you ran with their results. Your final message should summarise the same in a few lines. If you cannot find a change that survives the test-suite after serious effort, say so plainly instead of weakening the requirements.""")


if __name__ == "__main__":
    main()
