#!/bin/bash
# tools/run_seed.sh <name> [PROP] : apply seeded/<name>/patch.diff to /repo, run the property's quick check, undo
N=$1; P=${2:-$(python3 -c "import json;print(json.load(open('/verif/seeded/$N/meta.json'))['property'])")}
[ -n "$(git -C /repo status --porcelain --untracked-files=no)" ] && { echo "/repo has uncommitted changes: refusing (the undo step would discard them)"; exit 8; }
cp /verif/evidence/$P.json /var/tmp/evidence_$P.keep 2>/dev/null
cd /repo && git apply /verif/seeded/$N/patch.diff || { echo "patch does not apply"; exit 9; }
cd /verif && ./check $P --tier quick; RC=$?
cd /repo && git checkout -- . 
mv /var/tmp/evidence_$P.keep /verif/evidence/$P.json 2>/dev/null
echo "seed $N -> check $P exit $RC"
exit $RC
