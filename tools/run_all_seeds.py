#!/usr/bin/env python3
"""Run every kept seeded change against its property's quick check, each on its own scratch copy of /repo's HEAD
(never in /repo itself), and record what the check reported in seeded/<name>/detection.json.
usage: tools/run_all_seeds.py [-j N] [name ...]"""
import concurrent.futures
import json
import os
import shutil
import subprocess
import sys

ROOT = os.path.dirname(os.path.dirname(os.path.abspath(__file__)))
SCR = os.environ.get("SEEDS_SCRATCH", "/var/tmp/seedrun")   # a second concurrent run needs its own


def run(name):
    d = os.path.join(ROOT, "seeded", name)
    prop = json.load(open(os.path.join(d, "meta.json")))["property"]
    w = os.path.join(SCR, name)
    shutil.rmtree(w, ignore_errors=True)
    os.makedirs(w + "/tree")
    try:
        subprocess.run(f"git -C /repo archive HEAD | tar -x -C {w}/tree", shell=True, check=True)
        p = subprocess.run(["patch", "-p1", "-s", "-d", w + "/tree", "-i", os.path.join(d, "patch.diff")], capture_output=True, text=True)
        if p.returncode:
            return name, {"property": prop, "error": "patch does not apply: " + p.stdout[-300:]}
        env = dict(os.environ, PYVC_REPO=w + "/tree", PYTHONPATH=w + "/tree/src", PYVC_OUT=w + "/out", VERIF_TIER="quick")
        r = subprocess.run([os.path.join(ROOT, "check"), prop, "--tier", "quick"], capture_output=True, text=True, env=env, cwd=ROOT)
        lines = [l for l in r.stdout.splitlines() if l.startswith(("VIOLATION", "UNDECIDED", "CHECKER-ERROR", "KNOWN-FINDING"))]
        viol = [l for l in lines if l.startswith("VIOLATION")]
        try:
            evj = json.load(open(os.path.join(w, "out", "evidence", prop + ".json")))
            obl = sorted({v["obligation"] for v in evj["coverage"].get("violation_details", [])})
        except Exception:
            obl = sorted({os.path.basename(l.split("replay=")[1].split(".json")[0]) for l in viol})
        confirmed = sum(1 for l in viol if not l.rstrip().endswith("no-failing-input-found"))
        head = subprocess.run("git -C /repo rev-parse --short HEAD", shell=True, capture_output=True, text=True).stdout.strip()
        return name, {"property": prop, "repo_head": head, "check_exit": r.returncode, "detected": r.returncode == 1,
                      "failed_obligations": obl, "violations_with_failing_input_replayed": confirmed,
                      "other_lines": [l for l in lines if not l.startswith(("VIOLATION", "KNOWN-FINDING"))][:5]}
    finally:
        shutil.rmtree(w, ignore_errors=True)


def main():
    a = sys.argv[1:]
    jobs = 4
    if a[:1] == ["-j"]:
        jobs, a = int(a[1]), a[2:]
    names = a or sorted(os.listdir(os.path.join(ROOT, "seeded")))
    os.makedirs(SCR, exist_ok=True)
    bad = 0
    with concurrent.futures.ThreadPoolExecutor(jobs) as ex:
        for name, res in ex.map(run, names):
            if not os.environ.get("SEEDS_NO_RECORD"):   # robustness runs (other VERIF_SEED) only print
                with open(os.path.join(ROOT, "seeded", name, "detection.json"), "w") as f:
                    json.dump(res, f, indent=1)
            print(name, res.get("check_exit"), len(res.get("failed_obligations", [])), res.get("error", ""), flush=True)
            obsolete = json.load(open(os.path.join(ROOT, "seeded", name, "meta.json"))).get("status", "").startswith("obsolete")
            bad += (not res.get("detected")) and not obsolete
    shutil.rmtree(SCR, ignore_errors=True)
    sys.exit(1 if bad else 0)


if __name__ == "__main__":
    main()
