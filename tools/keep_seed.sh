#!/bin/bash
# tools/keep_seed.sh <PROP> <worktree> [name] : confirm a seeded change (demo passes clean / fails seeded, test-suite passes) and keep it
set -u
P=$1; WT=$2; NAME=${3:-$P}
OUT=/verif/seeded/$NAME; mkdir -p $OUT
cd $WT || exit 1
git diff -- src > $OUT/patch.diff
[ -s $OUT/patch.diff ] || { echo "empty patch"; exit 1; }
DEMO=$(ls demo_*.py | head -1); cp $DEMO $OUT/
git checkout -q -- src   # (no git stash: the stash list is shared between worktrees)
PYTHONPATH=$WT/src /venv/bin/python $DEMO > $OUT/demo_clean.out 2>&1; C=$?
git apply $OUT/patch.diff
PYTHONPATH=$WT/src /venv/bin/python $DEMO > $OUT/demo_seeded.out 2>&1; S=$?
PYTHONPATH=$WT/src /venv/bin/python -m pytest -q -p no:cacheprovider --timeout=900 -x --deselect tests/ebuild/test_eapi.py::TestEAPI::test_system_bash_supports_bundled_eapis --deselect tests/ebuild/test_profiles.py::TestProfileEapiDefault::test_top_level_with_feature --deselect tests/ebuild/test_repository.py::TestSlavedTree::test_license_groups --deselect tests/fs/test_ops.py::TestCopyFile::test_sym_perms tests > $OUT/tests.out 2>&1; T=$?
echo "demo clean exit=$C seeded exit=$S tests exit=$T: $(tail -1 $OUT/tests.out)"
cp SEED_NOTES.md $OUT/ 2>/dev/null
python3 - <<PY
import json
json.dump({"property":"$P","name":"$NAME","demo":"$DEMO","demo_clean_exit":$C,"demo_seeded_exit":$S,"tests_exit":$T,
 "tests_tail":open("$OUT/tests.out").read().strip().splitlines()[-1],
 "base_commit":"$(git -C $WT rev-parse HEAD)",
 "needs_to_manifest":"see SEED_NOTES.md", "ran":["demo on clean worktree","demo on seeded worktree","full pytest on seeded worktree (4 known failures deselected)"]},
 open("$OUT/meta.json","w"),indent=1)
PY
