#!/bin/bash
# tools/process_seed.sh <PROP> <name> : confirm the seed left in /tmp/wt/<PROP>, keep it as seeded/<name>, run the property's check against it on a scratch copy
P=$1; N=$2
/verif/tools/keep_seed.sh $P /tmp/wt/$P $N 2>&1 | tail -1
python3 /verif/tools/run_all_seeds.py $N 2>&1 | tail -1
